#!/bin/bash
# usage: tools/seedcheck.sh <patch.diff> <prop> [<prop>...]
# Applies a seeded change to a scratch worktree of /repo (never to /repo itself),
# runs the quick checks against it (GOSX_REPO) and removes the worktree.
set -u
patch=$(readlink -f "$1"); shift
wt=$(mktemp -d /tmp/sc-XXXXXX); rmdir "$wt"
git -C /repo worktree add --detach "$wt" HEAD >/dev/null 2>&1 || { echo "cannot create worktree"; exit 2; }
trap 'git -C /repo worktree remove --force "$wt" >/dev/null 2>&1; echo "[seedcheck] scratch worktree removed"' EXIT
git -C "$wt" apply "$patch" || { echo "patch does not apply"; exit 2; }
for p in "$@"; do
  echo "=== $p"
  (cd /verif && GOSX_REPO="$wt" timeout ${SEED_TIMEOUT:-900} ./bin/gosx check $p --no-evidence ${SEED_ARGS:-} 2>&1 | grep -E "^(VIOLATION|OK|INCONCLUSIVE|KNOWN)|counterexample|problem" | cut -c1-300 | sort | uniq -c | head -${SEED_LINES:-12}; echo "exit=${PIPESTATUS[0]}")
done
