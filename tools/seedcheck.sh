#!/bin/bash
# usage: tools/seedcheck.sh <patch.diff> <prop> [<prop>...]   -- applies a seeded change to /repo, runs the quick checks, reverts
set -u
patch=$1; shift
cd /repo || exit 2
if ! git diff --quiet -- . ':!src/visor/testdata/data.db.nosig'; then echo "/repo not clean"; exit 2; fi
git apply "$patch" || { echo "patch does not apply"; exit 2; }
trap 'git -C /repo checkout -- . ; echo "[seedcheck] /repo restored"' EXIT
for p in "$@"; do
  echo "=== $p"
  (cd /verif && timeout ${SEED_TIMEOUT:-900} ./bin/gosx check $p --no-evidence ${SEED_ARGS:-} 2>&1 | grep -E "^(VIOLATION|OK|INCONCLUSIVE|KNOWN)|counterexample|problem" | cut -c1-300 | head -${SEED_LINES:-12}; echo "exit=${PIPESTATUS[0]}")
done
