# Edited by hand; executed by manifest.py.  claim(id, level text, level note, design ref) / na(id, reason)

claim("C31",
 "Bounded-free symbolic check: the real mathutil helpers, fee.RequiredFee/RemainingHours/VerifyTransactionFeeForHours and UxOut.CoinHours are executed symbolically from their SSA with all arguments as free 64/32-bit vectors and compared with 128-bit reference arithmetic; the code is loop-free so the solver verdict covers the whole input domain.",
 "Trusted: gosx SSA semantics (validated per run by replaying one solver witness per path natively), z3/cvc5 soundness, cvc5 bit-vector-to-integer translation for mul/div kernels.",
 "DESIGN.md §4 C31")

_pending = "check not built yet in this revision (work in progress; see DESIGN.md §4)"
for p in ["C01","C02","C03","C04","C05","C06","C07","C09","C10","C11","C12","C13","C14","C15","C16","C17","C18","C19","C20","C21","C22","C23","C24","C25","C26","C27","C28","C29","C30","C33"]:
    na(p, _pending)
na("C08", "crash points inside boltdb's mmap/page commit and fsync ordering plus the goroutine/channel WalkChain pipeline cannot be encoded by an SSA->SMT executor (no I/O ordering or scheduling semantics)")
na("C32", "race freedom and shutdown under all goroutine schedules: the encoder has no thread/channel semantics; the race detector is a dynamic technique outside this family")
