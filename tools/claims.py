# Edited by hand; executed by manifest.py.  claim(id, level text, level note, design ref) / na(id, reason)

claim("C31",
 "Bounded-free symbolic check: the real mathutil helpers, fee.RequiredFee/RemainingHours/VerifyTransactionFeeForHours and UxOut.CoinHours are executed symbolically from their SSA with all arguments as free 64/32-bit vectors and compared with 128-bit reference arithmetic; the code is loop-free so the solver verdict covers the whole input domain.",
 "Trusted: gosx SSA semantics (validated per run by replaying one solver witness per path natively), z3/cvc5 soundness, cvc5 bit-vector-to-integer translation for mul/div kernels.",
 "DESIGN.md §4 C31")


claim("C29",
 "Symbolic check of the real visor.NewPageIndex / PageIndex.Cal: page size, page number and list length are free 64-bit vectors; start/end/total are compared with 128-bit reference arithmetic (page p covers [size(p-1), min(size*p, n)), pages beyond ceil(n/size) are empty, consecutive pages abut). Loop-free code, so the solver verdict covers the whole 64-bit domain.",
 "Trusted: gosx SSA semantics (every path witness replayed natively), solver soundness incl. BV->Int translation for the multiplication. Outside: the de-duplication and ordering of the result list before paging (visor.GetTransactions) and the HTTP layer.",
 "DESIGN.md §4 C29")

claim("C01",
 "Bounded symbolic check of the coin-conservation kernels: coin.VerifyTransactionCoinsSpending on 0..3 x 0..3 (thorough 0..4 x 0..4) outputs with every Coins field a free 64-bit vector is compared with 128-bit sums (accepted <=> both true sums fit in 64 bits and are equal), and the checked sums UxArray.Coins / Transaction.OutputHours are exact or error.",
 "Reduced in this revision: the block-level step (Unspents.ProcessBlock over a key/value model, verifyTxnHardConstraints data flow, genesis) is not yet encoded; those parts of the statement are outside the claim. Trusted: gosx semantics (witnesses replayed natively), solver soundness.",
 "DESIGN.md §4 C01 (H1 built; H2-H5 pending)")

claim("C03",
 "Bounded symbolic check that accepted transactions create no coin hours: coin.VerifyTransactionHoursSpending on 0..3 inputs x 0..3 outputs (all times, coins, hours free 64-bit) accepts iff no input's accrual hit an intermediate overflow, the 128-bit sum of input hours fits and the (wrapping, legacy) output-hour sum does not exceed it, with overflowing final additions counted as zero; UxOut.CoinHours itself is proved equal to hours + floor(coins*seconds/3.6e9) with the exact error conditions for all 64-bit values (shared with C31), and a 1-input end-to-end harness runs the real CoinHours inside the spending check.",
 "In the multi-input harness CoinHours is summarised by its contract (deterministic function returning value | distinguished overflow error | other error); monotonicity in time is decided directly only in the thorough tier on a reduced domain (coins < 2^32, elapsed < 2^31 s) and otherwise follows from the proved closed form. Outside: which head time the visor passes (C04) and VerifySingleTxnHardConstraints' extra overflow checks for unconfirmed transactions.",
 "DESIGN.md §4 C03")

claim("C11",
 "Bounded symbolic check of the soft rules: fee kernel (RequiredFee = ceil(h/b), no underflow, VerifyTransactionFeeForHours accepted iff fee != 0, hours+fee fits and fee*b >= hours+fee) over all 64/32-bit values; DropletPrecisionCheck iff amount mod 10^(6-p) = 0 for every legal p; VerifyTxn.Validate ranges; and transaction.VerifySingleTxnSoftConstraints accepted <=> size <= max and fee rule and no locked input address and all outputs precise, with every failure typed ErrTxnViolatesSoftConstraint and hard-rule entry points returning only ErrTxnViolatesHardConstraint, on transactions with 1..2 inputs x 1..2 outputs.",
 "Address.String abstracted as an injective function (base58 exactness is C15); UxOut.CoinHours summarised by its contract in the soft-rule harness (proved against the formula in C31); quick tier checks the size/fee, locked-address and precision rules in three separately parameterised runs, the thorough tier all together. Distribution list bounded to 2 addresses (real list: 100).",
 "DESIGN.md §4 C11")

claim("C23",
 "Bounded symbolic check of every message constructor with truncation (NewAnnounceTxnsMessage, NewGetTxnsMessage, NewGiveTxnsMessage, NewGiveBlocksMessage, NewGivePeersMessage): for 0..4 requested items of varying encoded size and a free 64-bit maxMsgLength >= 12, the wire length (4-byte length prefix + 4-byte message id + EncodeSize, the quantity gnet.sendMessage compares) is <= maxMsgLength, the result is a prefix of the (parsable) request, one more item would not fit, and the 128/256/512 item caps hold.",
 "The wire length is modelled as 8 + EncodeSize() (gnet.EncodeMessage's reflect-based id lookup is not executed); NewIPAddr's text parsing is abstracted by an uninterpreted function in the peers harness. Item counts above 4 are outside the bound except for the cap harness.",
 "DESIGN.md §4 C23")


claim("C22",
 "Bounded symbolic check of the receive framing: the real gnet.decodeData over a real bytes.Buffer is driven exactly as readLoop drives it (Write(chunk); decodeData) on a stream of 0..13 (thorough 0..17) free bytes split into up to three reads at every pair of cut points, with a free maxMsgLength; a one-shot reference parse of the whole stream is the oracle: without an invalid length prefix every complete frame is delivered exactly once, in order, with exact content and the incomplete tail stays buffered, for every chunking; an invalid prefix (< 4 or > max) yields ErrDisconnectInvalidMessageLength once its 5th byte is buffered, and nothing but earlier frames is delivered; no path panics.",
 "Reduced in this revision: message-id lookup and body decoding (convertToMessage / deserializeMessage: unknown id, undecodable body, trailing bytes) are not yet encoded. Streams longer than the bound (frames longer than 13/17 bytes, more than 3 reads) are outside the claim. TCP, bufio, queues and goroutines are C32 territory.",
 "DESIGN.md §4 C22 (H1 built; H2 pending)")

claim("C18",
 "Bounded symbolic no-panic and round-trip checks of wallet encryption: ScryptChacha20poly1305.Decrypt is executed for every decoded payload length 0..18 with free bytes (all metadata length prefixes), every nonce length 0..13, scrypt parameters N in -1..9, r,p in -1..2, keyLen in {-1,0,1,31,32,33}, running the real length arithmetic, scrypt.Key parameter checks, chacha20poly1305.New/Open argument checks: no panic path exists; Sha256Xor.Decrypt never panics for decoded ciphertexts of every length 0..99 with free content, and Sha256Xor Decrypt(Encrypt(d)) = d for 0/1/28/33-byte plaintexts with free content, password and nonce.",
 "base64 decoding, encoding/json, PBKDF2/HMAC, smix and the ChaCha20-Poly1305 core are replaced by arbitrary-result models under their documented contracts; SHA256 / Secp256k1Hash are uninterpreted functions. Outside: wallet Lock/Unlock bookkeeping (which fields are removed and restored), rejection of wrong passwords (a cryptographic, probabilistic statement), memory exhaustion through huge scrypt work factors in attacker-supplied metadata.",
 "DESIGN.md §4 C18 (H1-H3 built; H4 pending)")


claim("C09",
 "Bounded symbolic check that Transaction.verify (signed and unsigned mode) returns nil if and only if the documented rule list holds, the rule list being written independently in the harness (counts, |sigs| = |in|, pairwise distinct inputs, pairwise distinct outputs, type 0, no zero-coin output, 128-bit output-coin sum fits, Length = 37+12+65s+32i+37o, InnerHash = SHA256 of the independently re-encoded inputs and outputs, signature rules per mode) over transactions with 0..2 signatures x 0..2 inputs x 0..2 outputs and all fields free; plus decode canonicity: every byte string of the listed lengths either fails to decode or re-encodes to the same bytes, with no panic.",
 "SHA256 is an uninterpreted collision-free function and signature recovery an uninterpreted predicate of (signature, message hash). Outside: counts near the 65535 limit, byte strings longer than 220 bytes.",
 "DESIGN.md §4 C09")

claim("C15",
 "Bounded symbolic check of base58 and address encodings: base58.Encode equals the big-integer definition (one '1' per leading zero byte then the base-58 digits) and Decode inverts it for every byte string of 0..2 (thorough 0..3) bytes; base58.Decode accepts exactly the non-empty strings over the alphabet for every string of 0..2 (thorough 0..4) free bytes (incl. non-ASCII) and its result re-encodes to the same text; cipher.AddressFromBytes accepts exactly 25-byte strings with version 0 and checksum = SHA256(key||version)[:4] for every byte string of 0..30 bytes, decoded value and re-encoding exact; DecodeBase58Address only yields canonical version-0 addresses.",
 "Reduced bounds for base58 (digit extraction by repeated division/multiplication by 58 inside data-dependent loops is a weak solver target): strings at real address length (35 characters / 25 bytes) and the 4->5 character word boundary are outside the quick bound; the composition text -> bytes -> address is argued from the two halves. SHA256 uninterpreted.",
 "DESIGN.md §4 C15")


claim("C04",
 "Bounded symbolic check of block acceptance: Visor.executeSignedBlock is executed through the real coin.SignedBlock.VerifySignature, Blockchain.ExecuteBlock, processBlock, isGenesisBlock, verifyBlockHeader, processTransactions and verifyUxHash over a fake chain store that records what is handed to AddBlock; the submitted block (every header field, signature, 0..2 transactions) and the head block are free. Whenever the call succeeds, exactly one block was stored, it is the submitted block, the publisher-signature predicate holds on the stored header's hash, seq = head+1, time > head time, PrevHash = hash of head, BodyHash = Merkle root of the stored transactions, UxHash = the node's checksum, it is not the genesis block and it is not empty; whenever it fails, nothing was stored and neither the unconfirmed pool nor the history was touched.",
 "SHA256 collision free; signature verification is an uninterpreted predicate of (pubkey, sig, header hash); per-transaction rules summarised as an arbitrary verdict; follower (non-arbitrating) mode. Outside: boltdb rollback of a failed Update, the byte-for-byte unchanged state of the buckets after a rejection (only 'no mutating call was made' is shown), arbitrating mode.",
 "DESIGN.md §4 C04")

claim("C28",
 "Bounded symbolic no-panic check of the API-facing verification path: Visor.VerifyTxnVerbose is executed for transactions with 0..2 inputs and outputs against fakes of the chain, unspent pool and history returning every documented answer (found / not found / ErrUnspentNotExist / other error / (nil, nil) for unknown transactions / missing previous block); no path ends in a panic and every path returns a verdict.",
 "Reduced scope: one gateway method; the HTTP layer (net/http, JSON decoding, every other endpoint) and hangs are outside the claim. Store answers follow the documented contracts of Unspents.GetArray, HistoryDB.GetUxOuts/GetTransaction; the transaction rule checks and CoinHours are summarised by arbitrary verdicts.",
 "DESIGN.md §4 C28 (H1 built)")


claim("C24",
 "Bounded symbolic check of the connection bookkeeping: starting from every state the real API reaches for up to two connections (absent / pending / connected / introduced, outgoing or incoming, same or different IP, free connection ids, mirrors, listen port 0 or 7000), one (thorough: two) arbitrary events (outgoing attempt, connect, introduce, remove, with free ids and mirrors) are applied to the real daemon.Connections and to a shadow list kept by the statement's transition rules; the real call must succeed exactly when the rules allow it, and after every event the five maps must describe exactly the shadow list (per-IP counts, IP+mirror registry without stale or missing entries, id map, listen-address index, no two introduced connections sharing IP and mirror); removing every live connection must leave all maps empty.",
 "gnet hands out non-repeating connection ids (assumed). Addresses are three concrete ip:port strings on two IPs and listen ports come from {0,7000}; histories with interleaved removes before the final events are only covered up to the step bound (not an unbounded induction). Malformed address strings are outside (SplitAddr errors).",
 "DESIGN.md §4 C24")

claim("C33",
 "Bounded symbolic check of block delivery: GiveBlocksMessage.process is executed on a message of 0..4 blocks with free sequence numbers and genuine/forged flags against a follower whose head is free and whose block execution follows C04's acceptance predicate; the head must end exactly at the end of the gap-free run of publisher blocks above the old head found in message order (known blocks skipped, stop at the first rejection), only those blocks are executed, in sequence, and progress is followed by an announcement of the new head and a request for blocks above it (no progress: no message).",
 "One delivery step; convergence over many deliveries (any order, duplication, loss) follows by induction with C04 (chain stays a gap-free publisher prefix, and every delivery containing head+1 makes progress). The network scheduler, timers and multiple peers are outside.",
 "DESIGN.md §4 C33")


claim("C12",
 "Bounded symbolic check of spend construction in manual-hours mode, decomposed: (1) transaction.ChooseSpends (both strategies) on 1..3 offered balances with free coins, hours and block numbers returns a duplicate-free subset of the offered balances covering the requested coins and, after the burn, the requested hours, and reports ErrInsufficientBalance / ErrInsufficientHours only if all offered coins / hours do not cover the request; (2) transaction.Create around any selection that contract allows (1..2 offered outputs, 1 destination in the quick tier; 1..3 x 1..2 in the thorough tier): a returned transaction passes Transaction.VerifyUnsigned, spends only offered outputs each once, pays each destination exactly, balances coins, sends the remaining coins to the given or lexicographically first spending address and burns at least the required fee. The thorough tier also runs Create end to end with the real ChooseSpends.",
 "ChooseSpends, fee.RequiredFee and UxOut.CoinHours are summarised by their contracts in the Create harness (each contract is checked separately: ChooseSpends here, the others in C31); SHA256 uninterpreted / output ids concrete and distinct. Assumed invariants of unspent outputs: coins > 0, sums fit in 64 bits, distinct non-null ids, not the genesis output. Outside: automatic-hours (share) mode with shopspring/decimal, DistributeCoinHoursProportional (math/big), wallet-level wiring.",
 "DESIGN.md §4 C12 (H1 built; H2/H3 pending)")

claim("C13",
 "Bounded symbolic check of wallet.SignTransaction: transactions with 2 (thorough 2..3) inputs whose existing signatures are null or arbitrary, every sign-index list of length 0..inputs over values 0..inputs (out-of-range and duplicate values included), every assignment of the spent outputs to wallet entry 0, entry 1 or a foreign address, correct or corrupted inner hash, and all four wallet kinds / encrypted flag: the call succeeds exactly when the request is valid and the wallet can sign (not watch-only, not encrypted, inner hash correct, something left to sign, indexes valid, no requested input already signed, every needed key held); on success exactly the requested (or all unsigned) inputs carry sign(SHA256(inner||input), owner's key), every other signature, the inputs, outputs and inner hash are unchanged, and the argument transaction is never modified.",
 "Signing is an uninterpreted function of (message hash, secret key) whose result is never the null signature; wallet entries with different addresses hold different keys (C17). Outside: real key derivation, Visor.WalletSignTransaction wiring, verification of the produced signatures by the real curve code (follows from A-SIG and the entry invariant).",
 "DESIGN.md §4 C13")


claim("C21",
 "Bounded symbolic check of the generated wire codecs: for IPAddr, AnnounceBlocks, GetBlocks, Disconnect, AnnounceTxns, GetTxns, GivePeers and Introduction messages every byte string up to the listed lengths (free content) either fails to decode exactly or re-encodes to the same bytes, encodeSize equals the encoded length and no decoder panics; coin.Transaction likewise for the C09 length set; for the five length-limited messages a length prefix up to the tagged maximum (512/256/256/256/128) decodes completely and maximum+1 is refused with ErrMaxLenExceeded by decoder and encoder alike.",
 "Reduced: the comparison with the reflection-based reference encoder (same bytes / same failure kind on every input) is not encoded in this revision (no reflect support in the executor), and the block-database / history codecs are not covered; lengths beyond the listed bounds are outside. One listed finding: an explicitly empty trailing omitempty field decodes but is not canonical.",
 "DESIGN.md §4 C21 (H1, maxlen built; H3 pending)")

claim("C25",
 "Bounded symbolic check of peer introduction: IntroductionMessage.Verify on Extra of every length 0..50 and 75..78, 110 with free bytes and free mirror/version/key: accepted implies foreign mirror, supported version, the first 33 extra bytes equal this network's blockchain key, decoded verification parameters in the valid ranges and recorded as sent, a parsable user agent; no Extra makes it panic. The gate in Daemon.onMessageEvent, driven with a connection in every state (unknown, pending, connected, introduced), matching or foreign connection id and a message of every gate class: handlers run only for an introduced connection or for introduction / disconnect / peer-list messages; any other message before introduction disconnects with ErrDisconnectNoIntroduction; messages for unknown or replaced connections are dropped.",
 "The reflection decoder's results for the 9 parameter bytes and the length-prefixed user agent follow its documented format (model functions), user-agent parsing is an arbitrary verdict, message handlers and Daemon.Disconnect are recorders. Outside: IntroductionMessage.process wiring to connectionIntroduced, the pool and timers.",
 "DESIGN.md §4 C25")


claim("C02",
 "Bounded symbolic check of the unspent-set step and the double-spend guards: (1) Blockchain.processTransactions over a fake store with three output ids that are each unspent or not (free) and 1..2 (thorough 1..3) transactions of 1..2 inputs, free per-transaction rule verdicts, strict and arbitrating mode: an accepted block spends only outputs unspent at the head, spends no output twice, contains no rule-violating transaction, is unchanged in strict mode, and strict mode refuses only for such a reason; (2) one real blockdb.Unspents.ProcessBlock step over a key/value model of the buckets, from a pool of 1..2 outputs built through the real accessors and a block of 1..2 transactions spending a pool entry or an unknown id: a block spending a missing or twice-spent output is refused, otherwise every spent id is gone, every other entry untouched, every created output present with exact contents and the size is old - spent + created.",
 "bolt is replaced by a key/value model at the dbutil seam (its rollback of a failed Update is outside); output and transaction ids are concrete pairwise-distinct tags (collision freedom); per-transaction rule checking is a free verdict constrained by 'a transaction spending an output twice is invalid' (C09). Whole-history equality with an independent ledger is replaced by this step lemma.",
 "DESIGN.md §4 C02")

claim("C05",
 "Bounded symbolic check of block creation: Visor.createBlockFromTxns over a fake chain with 1..3 pending transactions (sizes 183/220 bytes), free fees, free rule verdicts (valid / soft / hard violation), free head time, block time and size limit, running the real coin.SortTransactions (sort.Sort with the real Less/Swap) and Transactions.TruncateBytesTo: the block handed to NewBlock holds only transactions that passed the hard and soft rules, each once, ordered by min(fee*1024, 2^64-1)/size measured at the head time (highest first, ties by lowest hash), fits the size limit, and everything left out is invalid or comes later in that order with the next one not fitting. Conflict arbitration (keep the earlier transaction in that order, drop invalid ones) is checked on Blockchain.processTransactions in arbitrating mode (shared with C02).",
 "Rule checking and fee computation are free per-transaction values; transaction ids are concrete distinct tags; mathutil.MultUint64 is summarised by its contract (C31). Outside: acceptance of the produced block by an independent follower end to end (argued from NewBlock's re-validation and C04), the 65535-transaction cap.",
 "DESIGN.md §4 C05")

claim("C07",
 "Bounded symbolic check of the derived indexes of the unspent set over a key/value model: after the real buildAddrIndex and after one real Unspents.ProcessBlock step (pool of 1..2 outputs over 2 addresses, block of 1..2 transactions creating 1..2 outputs each) the per-address index lists exactly the ids of the outputs each address owns (each once, no row for an address without outputs), AddressCount is the number of addresses with outputs, GetUnspentsOfAddrs answers for every queried address with exactly its outputs, the checksum is the xor of the snapshot hashes of the set, and the index height follows the block.",
 "Reduced scope: transaction history (historydb, spent-in-block links), predicted balances in Visor.GetBalanceOfAddresses, transaction views and block queries are outside this revision. bolt replaced by a key/value model; ids are concrete distinct tags, the snapshot hash is uninterpreted.",
 "DESIGN.md §4 C07 (H1/H3 built)")


claim("C06",
 "Bounded check of the unconfirmed pool over a key/value model of its buckets, running the real InjectTransaction, Refresh, RemoveInvalid, RemoveTransactions and the generated codec on every history 'inject A, optionally re-inject A, inject B, then refresh / remove-invalid / removal of A after a block' with every verdict (ok, soft violation, hard violation, other error) at every step: a transaction is stored only without a hard violation or failure, with flag 1 iff no soft violation; re-submission updates the single entry and is reported as known; after refresh every stored flag equals a fresh re-check and the transactions that became valid are reported; remove-invalid removes exactly the hard-invalid ones; a transaction contained in an accepted block leaves the pool.",
 "The deciding step is path enumeration with symbolic leaf data (amounts, times) - the history space is finite and explored completely within the bound; rule checking is a free per-transaction verdict (C09/C11), bolt is replaced by the key/value model, ids are concrete tags. Outside: user-submission wiring (Visor.InjectUserTransaction), interleavings with API goroutines, histories longer than the bound.",
 "DESIGN.md §4 C06")

claim("C20",
 "Symbolic crash-point check of file.SaveBinary (the single save routine behind wallet.Save, kvstorage and the peers file) over an ordered-write file-system model: create-or-truncate, write (a crash leaves an arbitrary prefix), atomic remove and rename. The crash point (before any of the file-system steps, or during a write with every torn length) and the old/new contents are solver variables: after any crash the target holds its previous or its new complete content (a new file is absent or complete), no leftover file matches the wallet loader's *.wlt pattern, and a completed save leaves exactly the new content.",
 "The file system is a model (no reordering of writes across files, no fsync semantics); the loaders (wallet.NewService over *.wlt, kvstorage over its own file) are represented by the file-content criterion stated above rather than executed (encoding/json is not encoded). The serialisation before the save and directory listing are outside.",
 "DESIGN.md §4 C20")


claim("C10",
 "Symbolic check of what third parties can change: (1) the acceptance gates of secp256k1.VerifySignature and VerifySignatureValidity over every 65-byte signature, message and key: an accepted signature has a recovery id below 4 and the top bit of s clear, and (listed finding) s at most half the group order; (2) byte binding: two transactions (1..2 inputs, 1..2 outputs each, all fields free) that both pass Transaction.Verify and whose signed messages SHA256(inner||input) coincide agree on length, type, inner hash, every input and every output, i.e. every byte outside the signature array is covered by what is signed (trailing bytes are excluded by C09's canonical decoding).",
 "Public-key recovery (curve arithmetic) returns nil or arbitrary bytes; SHA256 collision free; signature recovery an uninterpreted predicate. Outside: the algebraic malleations themselves (negating s, adding n to r) need the group law; block-level binding is argued from C04 (stored header = signed header) and the Merkle body hash. One listed finding: high-s signatures in (n/2, 2^255) pass the gate.",
 "DESIGN.md §4 C10")

claim("C26",
 "Bounded check of the peer list: from every list of 0..2 existing peers (trusted or not; last seen just now, two days ago or never) and every configured maximum 0..3, one operation - Pex.AddPeers with 0..3 addresses drawn from clean, whitespace-bearing and malformed candidates under any shuffle, Pex.AddPeer, or expiry of old peers - leaves only validated, sanitised addresses in the list, never grows the list beyond max(previous size, maximum) on bulk addition, evicts nobody on bulk addition, never evicts a trusted peer to make room and never drops a trusted peer as stale.",
 "validateAddress is summarised by its contract (strip whitespace, accept well-formed public ip:port) - its text parsing (regular expression, net.ParseIP, strconv) is not encoded, so 'global unicast IPv4 and port >= 1024' itself is outside this revision; rand.Shuffle is an arbitrary permutation, the clock a fixed instant. Mostly concrete enumeration of a finite space with solver-checked branches.",
 "DESIGN.md §4 C26 (H1 built; H2 pending)")

claim("C27",
 "Symbolic and bounded checks of API access control: basicAuth with configured and presented credentials of 0..2 free bytes reaches the endpoint iff exactly the configured username and password are presented (or none is configured and none presented), else 401; hostCheck and originRefererCheck admit exactly the acceptable Host / Origin / Referer values for a localhost or public configuration, else 403; CSRFCheck lets a POST/PUT/DELETE through iff token checking is off or the token verifies; ContentTypeJSONRequired; and the route table: newServerMux is executed and on every registered route an acceptable request reaches the endpoint, a DNS-rebinding Host is refused when header checking is on, wrong credentials are refused, and a POST without a valid token is refused when token checking is on (except the token endpoint itself).",
 "Reduced: net/http routing, CORS, gzip and TLS are outside; the endpoint logic and the per-method API-set filter wrapped around it are replaced by a probe in the route-table harness (so 'method served and API set enabled' is not checked); token verification (HMAC, base64, JSON, clock) is an arbitrary verdict, so 'requesting a new token invalidates earlier ones' is not checked (by reading it does not hold: tokens are stateless). SHA256 collision free.",
 "DESIGN.md §4 C27")

_pending = "check not built yet in this revision (work in progress; see DESIGN.md §4)"
for p in ["C14","C16","C17","C19","C30","C33"]:
    na(p, _pending)
na("C08", "crash points inside boltdb's mmap/page commit and fsync ordering plus the goroutine/channel WalkChain pipeline cannot be encoded by an SSA->SMT executor (no I/O ordering or scheduling semantics)")
na("C32", "race freedom and shutdown under all goroutine schedules: the encoder has no thread/channel semantics; the race detector is a dynamic technique outside this family")
