#!/bin/bash
# usage: tools/confirm_seed.sh <seed-dir> <demo-dest-relative-path> [extra test pkgs...]
# Confirms in a scratch worktree: demo passes without the patch, fails with it; patched tree builds; tests of touched packages (+extras) pass.
set -u
sd=$(readlink -f $1); dest=$2; shift 2
export GOFLAGS=-mod=vendor GOPROXY=off GOSUMDB=off GOTOOLCHAIN=local
wt=/tmp/wt-confirm-$$
git -C /repo worktree add -f --detach $wt HEAD >/dev/null 2>&1 || exit 2
trap 'git -C /repo worktree remove --force '$wt' >/dev/null 2>&1; rm -rf '$wt EXIT
cd $wt
cp $sd/demo_test.go $dest
pkg=./$(dirname $dest)/
name=$(grep -o 'func Test[A-Za-z0-9_]*' $dest | sed 's/func //' | paste -sd'|')
echo "[1] demo without patch (expect PASS)"
go test -vet=off -count=1 -run "^($name)\$" $pkg 2>&1 | tail -3
r1=${PIPESTATUS[0]}
git apply $sd/patch.diff || { echo "PATCH DOES NOT APPLY"; exit 2; }
echo "[2] demo with patch (expect FAIL)"
go test -vet=off -count=1 -run "^($name)\$" $pkg 2>&1 | tail -6
r2=${PIPESTATUS[0]}
rm -f $dest
echo "[3] build"
go build ./... 2>&1 | tail -3; r3=${PIPESTATUS[0]}
pkgs=$(grep '^+++ b/' $sd/patch.diff | sed 's#+++ b/##' | xargs -n1 dirname | sort -u | sed 's#^#./#; s#$#/#')
echo "[4] existing tests of: $pkgs $@"
go test -vet=off -count=1 -timeout 20m -skip 'TestErrMissingSignatureRecreateDB' $pkgs "$@" 2>&1 | grep -v "^ok\|no test files" | tail -15
r4=${PIPESTATUS[0]}
git checkout -- . 2>/dev/null
echo "RESULT demo_clean=$r1(want 0) demo_patched=$r2(want 1) build=$r3(want 0) tests=$r4(want 0)"
