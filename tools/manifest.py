#!/usr/bin/env python3
"""Regenerates /verif/MANIFEST.json from the tables below (keeps it schema-valid)."""
import json, os, sys

ENV = "GOFLAGS=-mod=mod GOPROXY=off GOSUMDB=off GOTOOLCHAIN=local"
TECH = "symbolic execution of the real functions' go/ssa into SMT-LIB2 bit-vector queries (z3 / cvc5 portfolio); unsat = holds for all inputs within the stated bounds; sat models replayed natively"

# property id -> (level text, level note)
CLAIMED = {}
NOT_APPLICABLE = {}

def claim(pid, text, note, design_ref):
    CLAIMED[pid] = (text, note, design_ref)

def na(pid, reason):
    NOT_APPLICABLE[pid] = reason

exec(open(os.path.join(os.path.dirname(__file__), "claims.py")).read())

checks = []
for pid in sorted(CLAIMED):
    text, note, ref = CLAIMED[pid]
    checks.append({
        "property_id": pid,
        "quick_cmd": f"/verif/bin/gosx check {pid} --tier quick",
        "thorough_cmd": f"/verif/bin/gosx check {pid} --tier thorough",
        "evidence_file": f"/verif/evidence/{pid}.json",
        "replay_cmd_template": "/verif/bin/gosx replay {path}",
        "engine": "gosx",
        "level_claimed": {"category": "model_checking", "text": text, "design_ref": ref},
        "level_note": note,
        "technique": TECH,
    })

manifest = {
    "version": 1,
    "setup_cmd": f"cd /verif/engine && {ENV} go build -o /verif/bin/gosx ./cmd/gosx",
    "hooks": {
        "guard": "verif",
        "enable": "no source hooks: harness files are injected with go/packages Overlay and go test -overlay; nothing under /repo is edited",
        "baseline_off_cmd": "for m in $(cat /w/out/gomods.txt); do MF=$(cd /repo/$m && . /w/out/goenv.sh && gomodflag); (cd /repo/$m && go test $MF -json -vet=off -count=1 -timeout 25m ./...); done",
        "source_commits": [],
        "add_only": True,
    },
    "engines": [{
        "name": "gosx",
        "path": "/verif/engine",
        "serves_properties": sorted(CLAIMED),
        "kind_free_text": "own Go SSA -> SMT-LIB2 symbolic executor (bounded, path-forking, concrete spine / symbolic leaves), z3 4.8.12 incremental + cvc5 --solve-bv-as-int=sum + z3 5.1 portfolio, native replay of models via go test -overlay",
    }],
    "checks": checks,
    "notes": "Exit codes: 0 holds within stated bounds; 1 replayed violation (VIOLATION line); 2 inconclusive (unsupported construct, solver unknown, unwinding-assertion failure, vacuous harness) - never reported as a pass. See DESIGN.md.",
    "not_applicable": [{"property_id": p, "reason": r} for p, r in sorted(NOT_APPLICABLE.items())],
}
json.dump(manifest, open("/verif/MANIFEST.json", "w"), indent=1)
print("claimed", len(checks), "n/a", len(NOT_APPLICABLE))
