package sx

// math/big.Int as mathematical integers.
//
// The library's own code (nat arithmetic, partly in assembly, with
// value-dependent loop counts) is not executed. A *big.Int is kept as a
// sign/magnitude pair of solver terms: the magnitude is an unsigned bit-vector
// whose width grows with the operations (so nothing ever wraps), stored in the
// `abs` field cell, the sign in the `neg` field cell. Every method of big.Int is
// either interpreted here with its documented meaning, evaluated with the real
// library when all operands are concrete (package initialisers), or
// UNSUPPORTED. The trusted base therefore includes "math/big computes what its
// documentation says"; what is checked is the code that *uses* it.

import (
	"fmt"
	"go/types"
	"math/big"
	"reflect"

	"gosx/smt"

	"golang.org/x/tools/go/ssa"
)

// BigV is the magnitude of a big.Int (width a multiple of 8, at least 8).
type BigV struct{ Mag *smt.Term }

type bigPair struct{ mag, neg *smt.Term }

func isBigIntPtr(t types.Type) bool {
	p, ok := t.(*types.Pointer)
	return ok && isNamedPkgType(p.Elem(), "math/big", "Int")
}

func (w *W) bigCell(v Value) *Cell {
	p, ok := v.(PtrV)
	if !ok || p.Alts != nil {
		w.unsupported("big.Int behind a symbolic pointer")
	}
	if p.C == nil {
		w.goPanicStr("runtime error: invalid memory address or nil pointer dereference (big.Int)")
	}
	if len(p.C.Kids) != 2 {
		w.unsupported("big.Int cell of unexpected shape")
	}
	return p.C
}

func round8(n int) int {
	if n < 8 {
		return 8
	}
	return (n + 7) / 8 * 8
}

// shrink drops leading zero bytes of constants (keeps widths small).
func (w *W) bigShrink(m *smt.Term) *smt.Term {
	if m.IsConst() {
		return w.C.BV(m.Val, round8(m.Val.BitLen()))
	}
	return m
}

func (w *W) bigGet(c *Cell) bigPair {
	neg, _ := w.load(c.Kids[0]).(*smt.Term)
	if neg == nil {
		neg = w.C.False()
	}
	switch x := w.load(c.Kids[1]).(type) {
	case BigV:
		return bigPair{x.Mag, neg}
	case SliceV:
		if x.Nil || x.Len == 0 {
			return bigPair{w.C.BVu(0, 8), w.C.False()}
		}
	}
	w.unsupported("big.Int holding raw words (built outside the interpreted methods)")
	return bigPair{}
}

func (w *W) bigSet(c *Cell, p bigPair) {
	m := w.bigShrink(p.mag)
	neg := p.neg
	if m.IsConst() && m.Val.Sign() == 0 {
		neg = w.C.False()
	}
	w.store(c.Kids[0], neg)
	w.store(c.Kids[1], BigV{Mag: m})
}

func (w *W) zextTo(t *smt.Term, n int) *smt.Term {
	if t.W >= n {
		return t
	}
	return w.C.ZExt(t, n-t.W)
}

func (w *W) bigCommon(a, b *smt.Term, extra int) (x, y *smt.Term) {
	n := a.W
	if b.W > n {
		n = b.W
	}
	n = round8(n + extra)
	return w.zextTo(a, n), w.zextTo(b, n)
}

// signed value of p in n bits (n must exceed the magnitude width)
func (w *W) bigSigned(p bigPair, n int) *smt.Term {
	m := w.zextTo(p.mag, n)
	if p.neg.IsFalse() {
		return m
	}
	return w.C.Ite(p.neg, w.C.Neg(m), m)
}

func (w *W) bigFromSigned(s *smt.Term) bigPair {
	neg := w.C.Slt(s, w.C.BVu(0, s.W))
	return bigPair{w.C.Ite(neg, w.C.Neg(s), s), neg}
}

func (w *W) bigAdd(x, y bigPair, sub bool) bigPair {
	if x.neg.IsFalse() && y.neg.IsFalse() && !sub {
		a, b := w.bigCommon(x.mag, y.mag, 1)
		return bigPair{w.C.Add(a, b), w.C.False()}
	}
	n := x.mag.W
	if y.mag.W > n {
		n = y.mag.W
	}
	n = round8(n + 2)
	sx, sy := w.bigSigned(x, n), w.bigSigned(y, n)
	if sub {
		return w.bigFromSigned(w.C.Sub(sx, sy))
	}
	return w.bigFromSigned(w.C.Add(sx, sy))
}

func (w *W) bigMul(x, y bigPair) bigPair {
	n := round8(x.mag.W + y.mag.W)
	m := w.C.Mul(w.zextTo(x.mag, n), w.zextTo(y.mag, n))
	neg := w.C.And(w.xor(x.neg, y.neg), w.C.Not(w.C.Eq(m, w.C.BVu(0, n))))
	return bigPair{m, neg}
}

func (w *W) xor(a, b *smt.Term) *smt.Term {
	return w.C.Not(w.C.Eq(a, b))
}

func (w *W) bigIsZero(p bigPair) *smt.Term { return w.C.Eq(p.mag, w.C.BVu(0, p.mag.W)) }

// truncated division (Quo/Rem); panics on a zero divisor like the library
func (w *W) bigQuoRem(x, y bigPair) (q, r bigPair) {
	if w.Branch(w.bigIsZero(y)) {
		w.goPanicStr("division by zero")
	}
	a, b := w.bigCommon(x.mag, y.mag, 0)
	qm, rm := w.C.UDiv(a, b), w.C.URem(a, b)
	q = bigPair{qm, w.C.And(w.xor(x.neg, y.neg), w.C.Not(w.C.Eq(qm, w.C.BVu(0, qm.W))))}
	r = bigPair{rm, w.C.And(x.neg, w.C.Not(w.C.Eq(rm, w.C.BVu(0, rm.W))))}
	return
}

// Euclidean division (Div/Mod/DivMod): 0 <= m < |y|
func (w *W) bigDivMod(x, y bigPair) (q, m bigPair) {
	q, r := w.bigQuoRem(x, y)
	if r.neg.IsFalse() {
		return q, r
	}
	// r < 0: m = r + |y|, q = q + (y<0 ? 1 : -1)
	ya, ra := w.bigCommon(y.mag, r.mag, 0)
	m = bigPair{w.C.Ite(r.neg, w.C.Sub(ya, ra), ra), w.C.False()}
	n := round8(q.mag.W + 2)
	sq := w.bigSigned(q, n)
	one := w.C.BVu(1, n)
	adj := w.C.Ite(r.neg, w.C.Ite(y.neg, w.C.Add(sq, one), w.C.Sub(sq, one)), sq)
	return w.bigFromSigned(adj), m
}

func (w *W) bigCmp(x, y bigPair) *smt.Term {
	n := x.mag.W
	if y.mag.W > n {
		n = y.mag.W
	}
	n = round8(n + 1)
	sx, sy := w.bigSigned(x, n), w.bigSigned(y, n)
	return w.C.Ite(w.C.Slt(sx, sy), w.C.BVi(-1, 64), w.C.Ite(w.C.Eq(sx, sy), w.C.BVu(0, 64), w.C.BVu(1, 64)))
}

func (w *W) bigFromBytes(bs []*smt.Term) bigPair {
	if len(bs) == 0 {
		return bigPair{w.C.BVu(0, 8), w.C.False()}
	}
	return bigPair{concatBytes(w.C, bs), w.C.False()}
}

// minimal big-endian bytes: the length is decided on this path
func (w *W) bigBytes(p bigPair) []*smt.Term {
	all := splitBytes(w.C, w.zextTo(p.mag, round8(p.mag.W))) // most significant first
	i := 0
	for i < len(all) && !w.Branch(w.C.Not(w.C.Eq(all[i], w.C.BVu(0, 8)))) {
		i++
	}
	return all[i:]
}

func pow(base int64, k int) *big.Int {
	return new(big.Int).Exp(big.NewInt(base), big.NewInt(int64(k)), nil)
}

// decimal text of the magnitude: the number of digits is decided on this path
func (w *W) bigDecimal(p bigPair) []*smt.Term {
	m := p.mag
	maxd := len(new(big.Int).Sub(new(big.Int).Lsh(big.NewInt(1), uint(m.W)), big.NewInt(1)).String())
	nd := 1
	for k := maxd; k >= 2; k-- {
		if w.Branch(w.C.Uge(m, w.C.BV(pow(10, k-1), m.W))) {
			nd = k
			break
		}
	}
	out := make([]*smt.Term, 0, nd+1)
	if w.Branch(p.neg) {
		out = append(out, w.C.BVu('-', 8))
	}
	ten := w.C.BVu(10, m.W)
	for i := nd - 1; i >= 0; i-- {
		d := w.C.URem(w.C.UDiv(m, w.C.BV(pow(10, i), m.W)), ten)
		out = append(out, w.C.Add(w.C.Extract(d, 7, 0), w.C.BVu('0', 8)))
	}
	return out
}

// SetString for base 10 / 16 with symbolic characters (concrete length)
func (w *W) bigSetString(s []*smt.Term, base int) (bigPair, bool) {
	neg := w.C.False()
	if len(s) > 0 {
		if w.Branch(w.C.Eq(s[0], w.C.BVu('-', 8))) {
			neg = w.C.True()
			s = s[1:]
		} else if w.Branch(w.C.Eq(s[0], w.C.BVu('+', 8))) {
			s = s[1:]
		}
	}
	if len(s) == 0 {
		return bigPair{}, false
	}
	bits := 4
	if base == 16 {
		bits = 4
	}
	n := round8(len(s)*bits + 1)
	acc := w.C.BVu(0, n)
	in := func(c *smt.Term, lo, hi byte) *smt.Term {
		return w.C.And(w.C.Uge(c, w.C.BVu(uint64(lo), 8)), w.C.Ule(c, w.C.BVu(uint64(hi), 8)))
	}
	for _, c := range s {
		var ok, d *smt.Term
		dec := w.C.Sub(c, w.C.BVu('0', 8))
		if base == 10 {
			ok, d = in(c, '0', '9'), dec
		} else {
			lo := w.C.Add(w.C.Sub(c, w.C.BVu('a', 8)), w.C.BVu(10, 8))
			up := w.C.Add(w.C.Sub(c, w.C.BVu('A', 8)), w.C.BVu(10, 8))
			ok = w.C.OrN(in(c, '0', '9'), in(c, 'a', 'f'), in(c, 'A', 'F'))
			d = w.C.Ite(in(c, '0', '9'), dec, w.C.Ite(in(c, 'a', 'f'), lo, up))
		}
		if !w.Branch(ok) {
			return bigPair{}, false
		}
		acc = w.C.Add(w.C.Mul(acc, w.C.BVu(uint64(base), n)), w.zextTo(d, n))
	}
	return bigPair{acc, w.C.And(neg, w.C.Not(w.C.Eq(acc, w.C.BVu(0, n))))}, true
}

func (w *W) bigConst(p bigPair) (*big.Int, bool) {
	if !p.mag.IsConst() || !p.neg.IsConst() {
		return nil, false
	}
	v := new(big.Int).Set(p.mag.Val)
	if p.neg.IsTrue() {
		v.Neg(v)
	}
	return v, true
}

func (w *W) bigOfConst(v *big.Int) bigPair {
	a := new(big.Int).Abs(v)
	return bigPair{w.C.BV(a, round8(a.BitLen())), w.C.Bool(v.Sign() < 0)}
}

func (w *W) newBigCell(t types.Type) *Cell {
	if p, ok := t.(*types.Pointer); ok {
		t = p.Elem()
	}
	return w.newCell(t)
}

// bigConcrete evaluates a big.Int method with the real library when every
// operand is concrete. ok=false: some operand is symbolic or of an unsupported kind.
func (w *W) bigConcrete(fn *ssa.Function, a []Value) (res Value, ok bool) {
	sig := fn.Signature
	if sig.Recv() == nil || !isBigIntPtr(sig.Recv().Type()) {
		return nil, false
	}
	objs := map[*Cell]*big.Int{}
	var order []*Cell
	conv := func(v Value, t types.Type) (reflect.Value, bool) {
		if isBigIntPtr(t) {
			p, isP := v.(PtrV)
			if !isP || p.Alts != nil {
				return reflect.Value{}, false
			}
			if p.C == nil {
				return reflect.ValueOf((*big.Int)(nil)), true
			}
			if o, seen := objs[p.C]; seen {
				return reflect.ValueOf(o), true
			}
			c, isC := w.bigConst(w.bigGet(p.C))
			if !isC {
				return reflect.Value{}, false
			}
			objs[p.C] = c
			order = append(order, p.C)
			return reflect.ValueOf(c), true
		}
		switch u := t.Underlying().(type) {
		case *types.Basic:
			switch {
			case u.Kind() == types.String:
				s, isC := concreteStr(v.(StrV))
				return reflect.ValueOf(s), isC
			case u.Kind() == types.Bool:
				t := v.(*smt.Term)
				return reflect.ValueOf(t.IsTrue()), t.IsConst()
			case u.Info()&types.IsInteger != 0:
				t := v.(*smt.Term)
				if !t.IsConst() {
					return reflect.Value{}, false
				}
				var rv reflect.Value
				switch u.Kind() {
				case types.Int:
					rv = reflect.ValueOf(int(t.Int64()))
				case types.Int64:
					rv = reflect.ValueOf(t.Int64())
				case types.Uint:
					rv = reflect.ValueOf(uint(t.Uint64()))
				case types.Uint64:
					rv = reflect.ValueOf(t.Uint64())
				case types.Uint8:
					rv = reflect.ValueOf(byte(t.Uint64()))
				case types.Int32:
					rv = reflect.ValueOf(int32(t.Int64()))
				default:
					return reflect.Value{}, false
				}
				return rv, true
			}
		case *types.Slice:
			if isByteSlice(t) {
				sv := v.(SliceV)
				bs := make([]byte, sv.Len)
				for i, b := range w.sliceBytes(sv) {
					if !b.IsConst() {
						return reflect.Value{}, false
					}
					bs[i] = byte(b.Uint64())
				}
				if sv.Nil {
					return reflect.ValueOf([]byte(nil)), true
				}
				return reflect.ValueOf(bs), true
			}
		}
		return reflect.Value{}, false
	}
	recv, okR := conv(a[0], sig.Recv().Type())
	if !okR || recv.IsNil() {
		return nil, false
	}
	m := recv.MethodByName(fn.Name())
	if !m.IsValid() || sig.Variadic() {
		return nil, false
	}
	args := make([]reflect.Value, sig.Params().Len())
	for i := range args {
		v, okA := conv(a[i+1], sig.Params().At(i).Type())
		if !okA {
			return nil, false
		}
		if !v.Type().AssignableTo(m.Type().In(i)) {
			return nil, false
		}
		args[i] = v
	}
	var out []reflect.Value
	func() {
		defer func() {
			if r := recover(); r != nil {
				w.goPanicStr(fmt.Sprint(r))
			}
		}()
		out = m.Call(args)
	}()
	// byte-slice arguments may have been written (FillBytes)
	for i := range args {
		if isByteSlice(sig.Params().At(i).Type()) {
			sv := a[i+1].(SliceV)
			bs := args[i].Bytes()
			for j, c := range w.sliceElems(sv) {
				w.store(c, w.C.BVu(uint64(bs[j]), 8))
			}
		}
	}
	for _, c := range order {
		w.bigSet(c, w.bigOfConst(objs[c]))
	}
	vals := make(TupleV, len(out))
	for i, o := range out {
		rt := sig.Results().At(i).Type()
		switch {
		case isBigIntPtr(rt):
			bp := o.Interface().(*big.Int)
			if bp == nil {
				vals[i] = PtrV{}
				break
			}
			found := false
			for c, obj := range objs {
				if obj == bp {
					vals[i], found = PtrV{C: c}, true
				}
			}
			if !found {
				c := w.newBigCell(rt)
				w.bigSet(c, w.bigOfConst(bp))
				vals[i] = PtrV{C: c}
			}
		case isByteSlice(rt):
			bs := o.Bytes()
			ts := make([]*smt.Term, len(bs))
			for j, b := range bs {
				ts[j] = w.C.BVu(uint64(b), 8)
			}
			if o.IsNil() {
				vals[i] = SliceV{Nil: true}
			} else {
				vals[i] = w.makeByteSlice(ts)
			}
		case isErrorType(rt):
			if o.IsNil() {
				vals[i] = IfaceV{}
			} else {
				vals[i] = w.opaqueError(o.Interface().(error).Error())
			}
		default:
			switch o.Kind() {
			case reflect.String:
				vals[i] = w.strConst(o.String())
			case reflect.Bool:
				vals[i] = w.C.Bool(o.Bool())
			case reflect.Int, reflect.Int64, reflect.Int32:
				vals[i] = w.C.BVi(o.Int(), int(w.E.sizeBits(rt)))
			case reflect.Uint, reflect.Uint64, reflect.Uint8:
				vals[i] = w.C.BVu(o.Uint(), int(w.E.sizeBits(rt)))
			default:
				return nil, false
			}
		}
	}
	switch len(vals) {
	case 0:
		return TupleV{}, true
	case 1:
		return vals[0], true
	}
	return vals, true
}

func (e *Engine) sizeBits(t types.Type) int64 {
	if b, ok := t.Underlying().(*types.Basic); ok {
		switch b.Kind() {
		case types.Int8, types.Uint8:
			return 8
		case types.Int16, types.Uint16:
			return 16
		case types.Int32, types.Uint32:
			return 32
		}
	}
	return 64
}

// ruleBig interprets package math/big.
func ruleBig(w *W, fn *ssa.Function, a []Value) Value {
	name := fn.Name()
	if fn.Signature.Recv() == nil {
		switch name {
		case "init":
			return w.resultZero(fn)
		case "NewInt":
			c := w.newBigCell(fn.Signature.Results().At(0).Type())
			v := w.termOf(a[0])
			w.bigSet(c, w.bigFromSigned(w.C.SExt(v, 8)))
			return PtrV{C: c}
		}
		if len(name) >= 4 && name[:4] == "init" {
			return w.resultZero(fn)
		}
		w.unsupported("math/big function " + fn.String() + " (not interpreted)")
	}
	if !isBigIntPtr(fn.Signature.Recv().Type()) {
		w.unsupported("math/big method " + fn.String() + " (only big.Int is interpreted)")
	}
	// nil receiver: String() and friends print "<nil>"
	if p, ok := a[0].(PtrV); ok && p.C == nil && p.Alts == nil {
		switch name {
		case "String", "Text":
			return w.strConst("<nil>")
		}
	}
	// all operands concrete: the real library
	if name != "Bytes" { // Bytes must return a fresh slice either way; handled below
		if r, ok := w.bigConcrete(fn, a); ok {
			return r
		}
	}
	z := w.bigCell(a[0])
	arg := func(i int) bigPair { return w.bigGet(w.bigCell(a[i])) }
	ret := func(p bigPair) Value { w.bigSet(z, p); return a[0] }
	switch name {
	case "Set":
		return ret(arg(1))
	case "SetBytes":
		return ret(w.bigFromBytes(w.sliceBytes(a[1].(SliceV))))
	case "SetInt64":
		return ret(w.bigFromSigned(w.C.SExt(w.termOf(a[1]), 8)))
	case "SetUint64":
		return ret(bigPair{w.termOf(a[1]), w.C.False()})
	case "Add":
		return ret(w.bigAdd(arg(1), arg(2), false))
	case "Sub":
		return ret(w.bigAdd(arg(1), arg(2), true))
	case "Mul":
		return ret(w.bigMul(arg(1), arg(2)))
	case "Neg":
		x := arg(1)
		return ret(bigPair{x.mag, w.C.And(w.C.Not(x.neg), w.C.Not(w.bigIsZero(x)))})
	case "Abs":
		return ret(bigPair{arg(1).mag, w.C.False()})
	case "Quo":
		q, _ := w.bigQuoRem(arg(1), arg(2))
		return ret(q)
	case "Rem":
		_, r := w.bigQuoRem(arg(1), arg(2))
		return ret(r)
	case "QuoRem":
		q, r := w.bigQuoRem(arg(1), arg(2))
		w.bigSet(w.bigCell(a[3]), r)
		w.bigSet(z, q)
		return TupleV{a[0], a[3]}
	case "Div":
		q, _ := w.bigDivMod(arg(1), arg(2))
		return ret(q)
	case "Mod":
		_, m := w.bigDivMod(arg(1), arg(2))
		return ret(m)
	case "DivMod":
		q, m := w.bigDivMod(arg(1), arg(2))
		w.bigSet(w.bigCell(a[3]), m)
		w.bigSet(z, q)
		return TupleV{a[0], a[3]}
	case "Cmp":
		return w.bigCmp(w.bigGet(z), arg(1))
	case "CmpAbs":
		x, y := w.bigGet(z), arg(1)
		return w.bigCmp(bigPair{x.mag, w.C.False()}, bigPair{y.mag, w.C.False()})
	case "Sign":
		x := w.bigGet(z)
		return w.C.Ite(x.neg, w.C.BVi(-1, 64), w.C.Ite(w.bigIsZero(x), w.C.BVu(0, 64), w.C.BVu(1, 64)))
	case "IsInt64":
		x := w.bigGet(z)
		m := w.zextTo(x.mag, 72)
		lim := w.C.BV(new(big.Int).Lsh(big.NewInt(1), 63), m.W)
		return w.C.Or(w.C.Ult(m, lim), w.C.And(x.neg, w.C.Eq(m, lim)))
	case "IsUint64":
		x := w.bigGet(z)
		m := w.zextTo(x.mag, 72)
		return w.C.And(w.C.Not(x.neg), w.C.Ult(m, w.C.BV(new(big.Int).Lsh(big.NewInt(1), 64), m.W)))
	case "Int64":
		x := w.bigGet(z)
		lo := w.C.Extract(w.zextTo(x.mag, 64), 63, 0)
		return w.C.Ite(x.neg, w.C.Neg(lo), lo)
	case "Uint64":
		x := w.bigGet(z)
		return w.C.Extract(w.zextTo(x.mag, 64), 63, 0)
	case "Bytes":
		return w.makeByteSlice(w.bigBytes(w.bigGet(z)))
	case "FillBytes":
		x := w.bigGet(z)
		buf := a[1].(SliceV)
		n := buf.Len * 8
		if x.mag.W > n {
			hi := w.C.Extract(x.mag, x.mag.W-1, n)
			if n == 0 {
				hi = x.mag
			}
			if w.Branch(w.C.Not(w.C.Eq(hi, w.C.BVu(0, hi.W)))) {
				w.goPanicStr("math/big: buffer too small to fit value")
			}
		}
		if buf.Len > 0 {
			bs := splitBytes(w.C, w.C.Resize(x.mag, n, false))
			for i, c := range w.sliceElems(buf) {
				w.store(c, bs[i])
			}
		}
		return a[1]
	case "Lsh", "Rsh":
		x := arg(1)
		k := w.termOf(a[2])
		if !k.IsConst() || k.Uint64() > 4096 {
			w.unsupported("big.Int shift by a symbolic or huge amount")
		}
		s := int(k.Uint64())
		if name == "Lsh" {
			n := round8(x.mag.W + s)
			return ret(bigPair{w.C.Shl(w.zextTo(x.mag, n), w.C.BVu(uint64(s), n)), x.neg})
		}
		if !x.neg.IsFalse() {
			w.unsupported("big.Int.Rsh of a possibly negative value")
		}
		return ret(bigPair{w.C.Lshr(x.mag, w.C.BVu(uint64(s), x.mag.W)), w.C.False()})
	case "Bit":
		x := w.bigGet(z)
		k := w.termOf(a[1])
		if !k.IsConst() || !x.neg.IsFalse() {
			w.unsupported("big.Int.Bit with symbolic index or possibly negative value")
		}
		i := int(k.Int64())
		if i < 0 {
			w.goPanicStr("negative bit index")
		}
		if i >= x.mag.W {
			return w.C.BVu(0, 64)
		}
		return w.C.ZExt(w.C.Extract(x.mag, i, i), 63)
	case "BitLen":
		x := w.bigGet(z)
		r := w.C.BVu(0, 64)
		for i := 1; i <= x.mag.W; i++ {
			r = w.C.Ite(w.C.Eq(w.C.Extract(x.mag, i-1, i-1), w.C.BVu(1, 1)), w.C.BVu(uint64(i), 64), r)
		}
		return r
	case "Exp":
		// x**y for a small concrete exponent and no modulus
		if mp, ok := a[3].(PtrV); ok && mp.C == nil && mp.Alts == nil {
			if y, okY := w.bigConst(arg(2)); okY && y.Sign() >= 0 && y.BitLen() <= 6 {
				x := arg(1)
				r := bigPair{w.C.BVu(1, 8), w.C.False()}
				for i := int64(0); i < y.Int64(); i++ {
					r = w.bigMul(r, x)
				}
				return ret(r)
			}
		}
	case "SetString":
		s := a[1].(StrV)
		b := w.termOf(a[2])
		if b.IsConst() && (b.Int64() == 10 || b.Int64() == 16) {
			p, ok := w.bigSetString(s.B, int(b.Int64()))
			if !ok {
				return TupleV{PtrV{}, w.C.False()}
			}
			w.bigSet(z, p)
			return TupleV{a[0], w.C.True()}
		}
	case "String":
		return StrV{B: w.bigDecimal(w.bigGet(z))}
	case "Text":
		if b := w.termOf(a[1]); b.IsConst() && b.Int64() == 10 {
			return StrV{B: w.bigDecimal(w.bigGet(z))}
		}
	case "Append":
		if b := w.termOf(a[2]); b.IsConst() && b.Int64() == 10 {
			old := w.sliceBytes(a[1].(SliceV))
			return w.makeByteSlice(append(append([]*smt.Term{}, old...), w.bigDecimal(w.bigGet(z))...))
		}
	}
	w.unsupported("big.Int." + name + " on symbolic operands (not interpreted)")
	return nil
}
