package sx

import (
	"crypto/sha256"
	"fmt"
	"go/token"
	"math/big"
	"go/types"
	"os"
	"path/filepath"
	"runtime/debug"
	"sort"
	"strings"
	"sync"
	"time"

	"gosx/smt"

	"golang.org/x/tools/go/packages"
	"golang.org/x/tools/go/ssa"
	"golang.org/x/tools/go/ssa/ssautil"
)

// Rule implements a function inside the engine.
type Rule func(w *W, fn *ssa.Function, args []Value) Value

// Harness describes one entry point to explore.
type Harness struct {
	Name              string // label used in reports
	Pkg               string // import path of the package the harness lives in
	Func              string // harness function name
	Unwind            int    // max symbolic iterations of one branch instruction per activation
	MaxSteps          int
	MaxPaths          int
	MaxValues         int               // Concretize fan-out bound
	MaxSymIndex       int               // arrays up to this size get ite-chains for symbolic indices
	Rules             map[string]string // function name -> "noop" | "havoc" | "model:<func>" | "exec"
	MapOrderAny       bool
	Thorough          bool
	ExpectPanic       bool // harness is expected to end in a Go panic on every path (twin checks)
	NoPanicIsProperty bool
	TimeoutMs         int
	Stubs             []string // descriptive: assumptions / stubs this harness relies on
}

func (h *Harness) unwind() int {
	if h == nil || h.Unwind == 0 {
		return 64
	}
	return h.Unwind
}
func (h *Harness) maxSteps() int {
	if h == nil || h.MaxSteps == 0 {
		return 20_000_000
	}
	return h.MaxSteps
}
func (h *Harness) maxSymIndex() int {
	if h == nil || h.MaxSymIndex == 0 {
		return 64
	}
	return h.MaxSymIndex
}

type Engine struct {
	Prog      *ssa.Program
	Fset      *token.FileSet
	Pkgs      map[string]*ssa.Package
	AllPkgs   []*packages.Package
	rules     map[string]Rule
	mu        sync.Mutex
	initFail  map[string]string
	initOK    map[string]bool
	methCache sync.Map
	fnInfos   sync.Map
	LoadTime  time.Duration
	RepoDir   string
	Verbose   bool
}

// Load type-checks the given packages of the repo (with overlay files) and
// builds SSA for them and all dependencies from source.
func Load(repo string, patterns []string, overlay map[string][]byte) (*Engine, error) {
	t0 := time.Now()
	cfg := &packages.Config{
		Mode: packages.NeedName | packages.NeedFiles | packages.NeedCompiledGoFiles | packages.NeedImports |
			packages.NeedDeps | packages.NeedTypes | packages.NeedSyntax | packages.NeedTypesInfo | packages.NeedTypesSizes | packages.NeedModule,
		Dir:     repo,
		Overlay: overlay,
		Env:     append(os.Environ(), "GOFLAGS=-mod=vendor", "GOPROXY=off", "GOTOOLCHAIN=local", "CGO_ENABLED=0"),
	}
	pkgs, err := packages.Load(cfg, patterns...)
	if err != nil {
		return nil, err
	}
	var errs []string
	packages.Visit(pkgs, nil, func(p *packages.Package) {
		for _, e := range p.Errors {
			errs = append(errs, e.Error())
		}
	})
	if len(errs) > 0 {
		if len(errs) > 10 {
			errs = errs[:10]
		}
		return nil, fmt.Errorf("package load errors:\n%s", strings.Join(errs, "\n"))
	}
	prog, _ := ssautil.AllPackages(pkgs, ssa.InstantiateGenerics)
	prog.Build()
	e := &Engine{Prog: prog, Fset: prog.Fset, Pkgs: map[string]*ssa.Package{}, AllPkgs: pkgs,
		rules: map[string]Rule{}, initFail: map[string]string{}, initOK: map[string]bool{}, RepoDir: repo}
	for _, p := range prog.AllPackages() {
		e.Pkgs[p.Pkg.Path()] = p
	}
	registerIntrinsics(e)
	e.LoadTime = time.Since(t0)
	return e, nil
}

func (e *Engine) AddRule(name string, r Rule) { e.rules[name] = r }

// packages whose synthetic init is executed (everything in the repo plus a
// list of standard-library packages with simple, pure initialisers).
var stdInitAllowed = map[string]bool{
	"errors": true, "io": true, "bytes": true, "strconv": true, "encoding/binary": true,
	"unicode/utf8": true, "sort": true, "strings": true, "math/bits": true, "encoding/hex": true,
	"encoding/base64": true, "slices": true, "cmp": true, "unicode/utf16": true,
	"container/list": true, "github.com/shopspring/decimal": true, "math": false, "hash/crc32": false, "math/big": false, "encoding/json": false,
}

func (e *Engine) initAllowed(p *ssa.Package) bool {
	path := p.Pkg.Path()
	if strings.HasPrefix(path, "github.com/skycoin/skycoin/src/") {
		return true
	}
	if strings.HasPrefix(path, "github.com/skycoin/skycoin/vendor/") {
		return false
	}
	return stdInitAllowed[path]
}

// globals of non-initialised packages that are fine to read as zero values.
func (e *Engine) zeroOKGlobal(g *ssa.Global) bool {
	if g.Pkg == nil {
		return true
	}
	if strings.HasPrefix(g.Name(), "init$guard") {
		return true
	}
	return false
}

func (e *Engine) noteInitFailure(p *ssa.Package, msg string) {
	e.mu.Lock()
	defer e.mu.Unlock()
	e.initFail[p.Pkg.Path()] = msg
}

func (e *Engine) InitFailures() map[string]string {
	e.mu.Lock()
	defer e.mu.Unlock()
	out := map[string]string{}
	for k, v := range e.initFail {
		out[k] = v
	}
	return out
}

func (e *Engine) lookupMethod(t types.Type, m *types.Func) *ssa.Function {
	type key struct {
		t types.Type
		m *types.Func
	}
	k := key{t, m}
	if v, ok := e.methCache.Load(k); ok {
		return v.(*ssa.Function)
	}
	e.mu.Lock()
	defer e.mu.Unlock()
	fn := e.Prog.LookupMethod(t, m.Pkg(), m.Name())
	e.methCache.Store(k, fn)
	return fn
}

func (e *Engine) lookupRule(h *Harness, fn *ssa.Function, name string) (Rule, bool) {
	if r, ok := e.vpLookup(h, fn); ok {
		return r, true
	}
	if h != nil && h.Rules != nil {
		if spec, ok := h.Rules[name]; ok {
			switch {
			case spec == "exec":
				return nil, false
			case spec == "noop":
				return ruleNoop, true
			case spec == "havoc":
				return ruleHavoc, true
			case strings.HasPrefix(spec, "model:"):
				target := spec[6:]
				return func(w *W, _ *ssa.Function, args []Value) Value {
					p := e.Pkgs[h.Pkg]
					m := p.Func(target)
					if m == nil {
						w.unsupported("model function " + target + " not found in " + h.Pkg)
					}
					return w.callFunc(m, nil, args)
				}, true
			case strings.HasPrefix(spec, "uf:"):
				return ufRule(spec[3:]), true
			case strings.HasPrefix(spec, "rule:"):
				if r, ok := e.rules[spec[5:]]; ok {
					return r, true
				}
			}
			panic("sx: bad rule spec " + spec + " for " + name)
		}
	}
	r, ok := e.rules[name]
	if ok {
		return r, true
	}
	if fn.Pkg != nil {
		if pr, ok := pkgRules[fn.Pkg.Pkg.Path()]; ok {
			return pr, true
		}
	} else if fn.Origin() != nil && fn.Origin().Pkg != nil {
		if pr, ok := pkgRules[fn.Origin().Pkg.Pkg.Path()]; ok {
			return pr, true
		}
	}
	return nil, false
}

// ---- exploration -----------------------------------------------------------

type PathSummary struct {
	Status      string
	Msg         string
	Decisions   int
	Steps       int
	Reaches     []string
	Observes    []string
	Witness     []string // model of the final path condition, in nondet order
	NondetTags  []string
	PanicMsg    string
	HasInternal bool
}

type Result struct {
	Harness         *Harness
	Paths           []PathSummary
	Asserts         []AssertRec
	Steps           int64
	Wall            time.Duration
	Solver          smt.Stats
	Funcs           map[string]string // function -> "file:line hash"
	Stubs           map[string]int
	Errors          []string
	Truncated       bool
	UnknownBranches int
}

func (r *Result) Count(status string) int {
	n := 0
	for _, p := range r.Paths {
		if p.Status == status {
			n++
		}
	}
	return n
}

// Explore runs the harness over all paths with the given number of workers.
func (e *Engine) Explore(h *Harness, workers int) *Result {
	t0 := time.Now()
	pkg := e.Pkgs[h.Pkg]
	if pkg == nil {
		return &Result{Harness: h, Errors: []string{"package not loaded: " + h.Pkg}}
	}
	fn := pkg.Func(h.Func)
	if fn == nil {
		return &Result{Harness: h, Errors: []string{"harness function not found: " + h.Pkg + "." + h.Func}}
	}
	res := &Result{Harness: h, Funcs: map[string]string{}, Stubs: map[string]int{}}
	res.Solver.ByBackend = map[string]int{}
	var mu sync.Mutex
	cond := sync.NewCond(&mu)
	queue := []Pending{{}}
	active := 0
	paths := 0
	maxPaths := h.MaxPaths
	if maxPaths == 0 {
		maxPaths = 200000
	}
	funcs := map[*ssa.Function]bool{}
	var wg sync.WaitGroup
	if os.Getenv("GOSX_PROGRESS") != "" {
		stop := make(chan struct{})
		defer close(stop)
		go func() {
			for {
				select {
				case <-stop:
					return
				case <-time.After(10 * time.Second):
					mu.Lock()
					fmt.Fprintf(os.Stderr, "[progress] %s: %d paths done, %d queued, %d active, %.0fs\n", h.Name, len(res.Paths), len(queue), active, time.Since(t0).Seconds())
					mu.Unlock()
				}
			}
		}()
	}
	for i := 0; i < workers; i++ {
		wg.Add(1)
		go func() {
			defer wg.Done()
			w := newWorker(e, h)
			defer func() {
				if os.Getenv("GOSX_CTXSTATS") != "" {
					fmt.Fprintf(os.Stderr, "[ctx] terms=%d table=%d consts=%d\n", w.C.NumTerms(), w.C.TableSize(), w.C.NumConsts())
				}
				w.S.Close()
				mu.Lock()
				mergeStats(&res.Solver, &w.S.Stats)
				for _, er := range w.S.Errors {
					if len(res.Errors) < 20 {
						res.Errors = append(res.Errors, "solver: "+er)
					}
				}
				for f := range w.funcsHit {
					funcs[f] = true
				}
				for k, v := range w.stubsHit {
					res.Stubs[k] += v
				}
				res.UnknownBranches += w.unknownBranches
				mu.Unlock()
			}()
			for {
				mu.Lock()
				for len(queue) == 0 && active > 0 {
					cond.Wait()
				}
				if len(queue) == 0 && active == 0 {
					mu.Unlock()
					cond.Broadcast()
					return
				}
				if paths >= maxPaths {
					res.Truncated = true
					queue = nil
					mu.Unlock()
					cond.Broadcast()
					if active == 0 {
						return
					}
					mu.Lock()
					for active > 0 && len(queue) == 0 {
						cond.Wait()
					}
					mu.Unlock()
					return
				}
				prefix := queue[len(queue)-1]
				queue = queue[:len(queue)-1]
				active++
				paths++
				mu.Unlock()

				ps, asserts, pending := w.runPath(fn, prefix)

				mu.Lock()
				res.Paths = append(res.Paths, ps)
				res.Asserts = append(res.Asserts, asserts...)
				res.Steps += int64(ps.Steps)
				queue = append(queue, pending...)
				active--
				mu.Unlock()
				cond.Broadcast()
			}
		}()
	}
	wg.Wait()
	for f := range funcs {
		res.Funcs[f.String()] = e.describeFunc(f)
	}
	res.Wall = time.Since(t0)
	return res
}

func mergeStats(dst, src *smt.Stats) {
	dst.Queries += src.Queries
	dst.Sat += src.Sat
	dst.Unsat += src.Unsat
	dst.Unknown += src.Unknown
	dst.Fallbacks += src.Fallbacks
	dst.FallbackOK += src.FallbackOK
	dst.Time += src.Time
	dst.FallbackDur += src.FallbackDur
	dst.Restarts += src.Restarts
	dst.ModelTime += src.ModelTime
	dst.ModelCalls += src.ModelCalls
	for k, v := range src.ByBackend {
		dst.ByBackend[k] += v
	}
}

func (e *Engine) describeFunc(f *ssa.Function) string {
	pos := e.Fset.Position(f.Pos())
	h := sha256.New()
	for _, b := range f.Blocks {
		for _, ins := range b.Instrs {
			fmt.Fprintln(h, ins.String())
		}
	}
	file := pos.Filename
	if rel, err := filepath.Rel(e.RepoDir, file); err == nil && !strings.HasPrefix(rel, "..") {
		file = rel
	}
	return fmt.Sprintf("%s:%d ssa-sha256=%x", file, pos.Line, h.Sum(nil)[:6])
}

func newWorker(e *Engine, h *Harness) *W {
	c := smt.NewCtx()
	to := h.TimeoutMs
	if to == 0 {
		to = 10000
	}
	// the incremental z3 gets a short cap; undecided queries go to the racing
	// portfolio (Int translation, cvc5, z3 5.1) with the full budget
	prim := 1000
	if h.Thorough {
		prim = 8000
	}
	if prim > to {
		prim = to
	}
	w := &W{E: e, C: c, S: smt.NewSolver(c, prim), H: h,
		globals: map[*ssa.Global]*Cell{}, initDone: map[*ssa.Package]bool{},
		funcsHit: map[*ssa.Function]bool{}, stubsHit: map[string]int{}}
	w.S.FbTimeout = 60
	if to >= 60000 {
		w.S.FbTimeout = to / 1000
	}
	return w
}

func (w *W) resetPath(pp Pending) {
	prefix := pp.Prefix
	w.model, w.modelMemo, w.known = pp.Model, nil, nil
	w.undoGlobals()
	if w.C.TableSize() > 200000 {
		w.C.Prune()
	}
	w.prefix, w.pos = prefix, 0
	w.trace = w.trace[:0]
	w.pending = nil
	w.nondets = nil
	w.asserts = nil
	w.reaches = nil
	w.obsTerms = nil
	w.observes = nil
	w.steps = 0
	w.depth = 0
	w.top = nil
	w.ufApps = map[string][]ufApp{}
	w.extra = map[string]interface{}{}
	w.curPos = token.NoPos
}

func (w *W) runPath(fn *ssa.Function, prefix Pending) (ps PathSummary, asserts []AssertRec, pending []Pending) {
	w.resetPath(prefix)
	w.S.PopTo(0)
	w.S.Push()
	defer func() {
		r := recover()
		switch x := r.(type) {
		case nil:
			ps.Status = "done"
		case *pathEnd:
			ps.Status, ps.Msg = x.Status, x.Msg
		case *goPanic:
			ps.Status = "panic"
			ps.PanicMsg = x.Msg
			ps.Msg = x.Msg + x.Pos
		default:
			ps.Status = "engine-error"
			ps.Msg = fmt.Sprintf("%v\n%s", r, debug.Stack())
		}
		ps.Decisions = len(w.trace)
		ps.Steps = w.steps
		ps.Reaches = w.reaches
		ps.Observes = w.observes
		for _, n := range w.nondets {
			if n.Internal {
				ps.HasInternal = true
				continue
			}
			ps.NondetTags = append(ps.NondetTags, n.Tag)
		}
		if w.replaying() && ps.Status != "engine-error" && ps.Status != "infeasible" {
			// the path ended before consuming its prefix: the parent already
			// accounted for this outcome
			if ps.Status != "unsupported" && ps.Status != "steps" {
				ps.Status = "engine-error"
				ps.Msg = "path ended while replaying its prefix: " + ps.Msg
			}
		}
		if ps.Status == "done" || ps.Status == "panic" {
			// witness for the whole path (reachability + native validation)
			var r smt.Result
			var pm map[string]*big.Int
			if w.model != nil && !w.replaying() {
				r, pm = smt.Sat, w.model
			} else if r = w.S.Check(); r == smt.Sat {
				pm, _ = w.S.Model(w.nondetTerms())
			}
			if r == smt.Sat {
				if m := pm; m != nil {
					ps.Witness = w.modelStrings(m)
					// observed values under this witness
					for i, o := range w.obsTerms {
						if o == nil {
							continue
						}
						v := smt.Eval(w.C, o, m)
						if v == nil {
							ps.Reaches[i] += "?"
						} else {
							ps.Reaches[i] += v.String()
						}
					}
				}
			} else if r == smt.Unsat {
				ps.Status = "infeasible"
			}
		}
		for i := range w.asserts {
			w.asserts[i].Harness = w.H.Name
		}
		asserts = w.asserts
		pending = w.pending
	}()
	w.ensureInit(fn.Pkg)
	w.callFunc(fn, nil, nil)
	return
}

// ---- reporting helpers -----------------------------------------------------

func SortedKeys(m map[string]string) []string {
	ks := make([]string, 0, len(m))
	for k := range m {
		ks = append(ks, k)
	}
	sort.Strings(ks)
	return ks
}
