// Package sx is a symbolic executor for Go SSA (golang.org/x/tools/go/ssa)
// producing SMT-LIB2 queries. Memory is a concrete spine (cells, slices with
// concrete lengths, maps as association lists) with symbolic scalar leaves.
package sx

import (
	"fmt"
	"go/types"
	"math/big"

	"gosx/smt"

	"golang.org/x/tools/go/ssa"
)

// Value is one of: *smt.Term (bool / integer scalars), FloatV, StrV, StructV,
// ArrayV, PtrV, SliceV, MapV, IfaceV, FuncV, TupleV, ChanV.
type Value interface{}

type FloatV struct{ F float64 }

// StrV is an immutable byte string with concrete length.
type StrV struct {
	B []*smt.Term // each 8 bits
}

type StructV struct{ F []Value }
type ArrayV struct{ E []Value }
type TupleV []Value

// Cell is a mutable memory location. Aggregates (struct, array) have Kids;
// everything else is a leaf holding V.
type Cell struct {
	T      types.Type
	V      Value
	Kids   []*Cell
	Agg    bool
	Frozen bool        // allocated during package initialisation
	Opaque interface{} // intrinsic-owned payload (big.Int, bytes.Buffer shadow, ...)
	Poison string      // non-empty: reading is UNSUPPORTED (uninitialised global)
	ID     int
	Up     *Cell // enclosing array cell (for unsafe.String/Slice on element pointers)
	Idx    int
}

// PtrAlt is one guarded target of a pointer produced by symbolic indexing.
type PtrAlt struct {
	G *smt.Term
	C *Cell
}

type PtrV struct {
	C    *Cell
	Alts []PtrAlt // if non-nil, C is nil and exactly one guard holds
}

type SliceV struct {
	Arr           *Cell // array cell (Agg) holding the backing store
	Off, Len, Cap int
	Nil           bool
}

type MapObj struct {
	Keys   []Value
	Vals   []Value
	Frozen bool
	KT, VT types.Type
}
type MapV struct{ M *MapObj }

type IfaceV struct {
	T types.Type // dynamic type; nil = nil interface
	V Value
}

// Native is an engine-implemented function value.
type Native func(w *W, args []Value) Value

type FuncV struct {
	Fn   *ssa.Function
	Bind []Value
	Nat  Native
	Name string
}

func (f FuncV) IsNil() bool { return f.Fn == nil && f.Nat == nil }

type ChanV struct{}

func isNamedPkgType(t types.Type, pkg, name string) bool {
	if p, ok := t.(*types.Pointer); ok {
		t = p.Elem()
	}
	n, ok := types.Unalias(t).(*types.Named)
	if !ok || n.Obj().Pkg() == nil {
		return false
	}
	return n.Obj().Pkg().Path() == pkg && n.Obj().Name() == name
}

func intWidth(t types.Type) (w int, signed bool, ok bool) {
	b, isB := t.Underlying().(*types.Basic)
	if !isB {
		return 0, false, false
	}
	switch b.Kind() {
	case types.Bool, types.UntypedBool:
		return 0, false, true
	case types.Int8:
		return 8, true, true
	case types.Uint8:
		return 8, false, true
	case types.Int16:
		return 16, true, true
	case types.Uint16:
		return 16, false, true
	case types.Int32, types.UntypedRune:
		return 32, true, true
	case types.Uint32:
		return 32, false, true
	case types.Int64, types.Int, types.UntypedInt:
		return 64, true, true
	case types.Uint64, types.Uint, types.Uintptr:
		return 64, false, true
	}
	return 0, false, false
}

func isFloat(t types.Type) bool {
	b, ok := t.Underlying().(*types.Basic)
	return ok && b.Info()&types.IsFloat != 0
}

func isString(t types.Type) bool {
	b, ok := t.Underlying().(*types.Basic)
	return ok && b.Info()&types.IsString != 0
}

func (w *W) zero(t types.Type) Value {
	switch u := t.Underlying().(type) {
	case *types.Basic:
		if wd, _, ok := intWidth(u); ok {
			if wd == 0 {
				return w.C.False()
			}
			return w.C.BVu(0, wd)
		}
		if u.Info()&types.IsString != 0 {
			return StrV{}
		}
		if u.Info()&types.IsFloat != 0 {
			return FloatV{}
		}
		if u.Kind() == types.UnsafePointer {
			return PtrV{}
		}
		if u.Kind() == types.UntypedNil {
			return PtrV{}
		}
		w.unsupported("zero value of basic type " + u.String())
	case *types.Pointer:
		return PtrV{}
	case *types.Slice:
		return SliceV{Nil: true}
	case *types.Map:
		return MapV{}
	case *types.Chan:
		return ChanV{}
	case *types.Signature:
		return FuncV{}
	case *types.Interface:
		return IfaceV{}
	case *types.Struct:
		s := StructV{F: make([]Value, u.NumFields())}
		for i := range s.F {
			s.F[i] = w.zero(u.Field(i).Type())
		}
		return s
	case *types.Array:
		a := ArrayV{E: make([]Value, u.Len())}
		if u.Len() > 0 {
			z := w.zero(u.Elem())
			for i := range a.E {
				if i == 0 || isImmutableLeaf(z) {
					a.E[i] = z
				} else {
					a.E[i] = w.zero(u.Elem())
				}
			}
		}
		return a
	case *types.Tuple:
		tv := make(TupleV, u.Len())
		for i := range tv {
			tv[i] = w.zero(u.At(i).Type())
		}
		return tv
	}
	w.unsupported("zero value of type " + t.String())
	return nil
}

func isImmutableLeaf(v Value) bool {
	switch v.(type) {
	case *smt.Term, FloatV, StrV, PtrV, SliceV, MapV, IfaceV, FuncV, ChanV:
		return true
	}
	return false
}

func isAgg(t types.Type) bool {
	switch t.Underlying().(type) {
	case *types.Struct, *types.Array:
		return true
	}
	return false
}

func (w *W) newCell(t types.Type) *Cell {
	w.cellSeq++
	c := &Cell{T: t, Frozen: w.initDepth > 0, ID: w.cellSeq}
	switch u := t.Underlying().(type) {
	case *types.Struct:
		c.Agg = true
		c.Kids = make([]*Cell, u.NumFields())
		for i := range c.Kids {
			c.Kids[i] = w.newCell(u.Field(i).Type())
		}
	case *types.Array:
		c.Agg = true
		c.Kids = make([]*Cell, u.Len())
		for i := range c.Kids {
			c.Kids[i] = w.newCell(u.Elem())
			c.Kids[i].Up, c.Kids[i].Idx = c, i
		}
	default:
		c.V = w.zero(t)
	}
	return c
}

// newArrayCell makes a backing array of n elements of type elem.
func (w *W) newArrayCell(elem types.Type, n int) *Cell {
	w.cellSeq++
	c := &Cell{T: types.NewArray(elem, int64(n)), Agg: true, Frozen: w.initDepth > 0, ID: w.cellSeq}
	c.Kids = make([]*Cell, n)
	for i := range c.Kids {
		c.Kids[i] = w.newCell(elem)
		c.Kids[i].Up, c.Kids[i].Idx = c, i
	}
	return c
}

func (w *W) load(c *Cell) Value {
	if c.Poison != "" {
		w.unsupported("read of uninitialised global " + c.Poison)
	}
	if !c.Agg {
		return c.V
	}
	if _, ok := c.T.Underlying().(*types.Struct); ok {
		s := StructV{F: make([]Value, len(c.Kids))}
		for i, k := range c.Kids {
			s.F[i] = w.load(k)
		}
		return s
	}
	a := ArrayV{E: make([]Value, len(c.Kids))}
	for i, k := range c.Kids {
		a.E[i] = w.load(k)
	}
	return a
}

func (w *W) store(c *Cell, v Value) {
	if c.Frozen && w.initDepth == 0 {
		// package-level state is shared by all paths: remember how to undo the write
		w.journal = append(w.journal, undoRec{cell: c, v: c.V, poison: c.Poison})
	}
	c.Poison = ""
	if !c.Agg {
		c.V = v
		return
	}
	switch x := v.(type) {
	case StructV:
		if len(x.F) != len(c.Kids) {
			panic(fmt.Sprintf("sx: store struct arity %d into %d (%s)", len(x.F), len(c.Kids), c.T))
		}
		for i, k := range c.Kids {
			w.store(k, x.F[i])
		}
	case ArrayV:
		if len(x.E) != len(c.Kids) {
			panic("sx: store array arity")
		}
		for i, k := range c.Kids {
			w.store(k, x.E[i])
		}
	default:
		panic(fmt.Sprintf("sx: store %T into aggregate cell %s", v, c.T))
	}
}

// guarded store: c := g ? v : c
func (w *W) storeIf(g *smt.Term, c *Cell, v Value) {
	if g.IsTrue() {
		w.store(c, v)
		return
	}
	if g.IsFalse() {
		return
	}
	old := w.load(c)
	w.store(c, w.mergeIte(g, v, old))
}

func (w *W) loadPtr(p PtrV) Value {
	if p.Alts != nil {
		var res Value
		for i := len(p.Alts) - 1; i >= 0; i-- {
			v := w.load(p.Alts[i].C)
			if res == nil {
				res = v
			} else {
				res = w.mergeIte(p.Alts[i].G, v, res)
			}
		}
		return res
	}
	if p.C == nil {
		w.goPanicStr("runtime error: invalid memory address or nil pointer dereference")
	}
	return w.load(p.C)
}

func (w *W) storePtr(p PtrV, v Value) {
	if p.Alts != nil {
		for _, a := range p.Alts {
			w.storeIf(a.G, a.C, v)
		}
		return
	}
	if p.C == nil {
		w.goPanicStr("runtime error: invalid memory address or nil pointer dereference")
	}
	w.store(p.C, v)
}

// mergeIte builds g ? a : b over value trees of identical shape.
func (w *W) mergeIte(g *smt.Term, a, b Value) Value {
	switch x := a.(type) {
	case *smt.Term:
		return w.C.Ite(g, x, b.(*smt.Term))
	case StructV:
		y := b.(StructV)
		r := StructV{F: make([]Value, len(x.F))}
		for i := range x.F {
			r.F[i] = w.mergeIte(g, x.F[i], y.F[i])
		}
		return r
	case ArrayV:
		y := b.(ArrayV)
		r := ArrayV{E: make([]Value, len(x.E))}
		for i := range x.E {
			r.E[i] = w.mergeIte(g, x.E[i], y.E[i])
		}
		return r
	case StrV:
		y := b.(StrV)
		if len(x.B) == len(y.B) {
			r := StrV{B: make([]*smt.Term, len(x.B))}
			for i := range x.B {
				r.B[i] = w.C.Ite(g, x.B[i], y.B[i])
			}
			return r
		}
	case PtrV:
		y := b.(PtrV)
		if x.Alts == nil && y.Alts == nil && x.C == y.C {
			return x
		}
	case SliceV:
		if x == b.(SliceV) {
			return x
		}
	case MapV:
		if x == b.(MapV) {
			return x
		}
	case FloatV:
		if x == b.(FloatV) {
			return x
		}
	case BigV:
		if y, ok := b.(BigV); ok {
			p, q := w.bigCommon(x.Mag, y.Mag, 0)
			return BigV{Mag: w.C.Ite(g, p, q)}
		}
	}
	// shapes differ: decide the guard on this path
	if w.Branch(g) {
		return a
	}
	return b
}

// ---- strings ---------------------------------------------------------------

func (w *W) strConst(s string) StrV {
	b := make([]*smt.Term, len(s))
	for i := 0; i < len(s); i++ {
		b[i] = w.C.BVu(uint64(s[i]), 8)
	}
	return StrV{B: b}
}

// concreteStr returns the Go string if all bytes are constants.
func concreteStr(s StrV) (string, bool) {
	b := make([]byte, len(s.B))
	for i, t := range s.B {
		if !t.IsConst() {
			return "", false
		}
		b[i] = byte(t.Uint64())
	}
	return string(b), true
}

func (w *W) mustStr(v Value, what string) string {
	s, ok := concreteStr(v.(StrV))
	if !ok {
		w.unsupported("symbolic string where a concrete one is needed: " + what)
	}
	return s
}

// ---- slices ----------------------------------------------------------------

func (w *W) sliceElems(s SliceV) []*Cell {
	if s.Nil || s.Len == 0 {
		return nil
	}
	return s.Arr.Kids[s.Off : s.Off+s.Len]
}

func (w *W) sliceElemType(s SliceV, t types.Type) types.Type {
	return t.Underlying().(*types.Slice).Elem()
}

// makeByteSlice builds a fresh []byte holding the given terms.
func (w *W) makeByteSlice(bs []*smt.Term) SliceV {
	arr := w.newArrayCell(types.Typ[types.Uint8], len(bs))
	for i, b := range bs {
		arr.Kids[i].V = b
	}
	return SliceV{Arr: arr, Off: 0, Len: len(bs), Cap: len(bs)}
}

func (w *W) sliceBytes(s SliceV) []*smt.Term {
	out := make([]*smt.Term, s.Len)
	for i, c := range w.sliceElems(s) {
		out[i] = w.load(c).(*smt.Term)
	}
	return out
}

func (w *W) sliceValues(s SliceV) []Value {
	out := make([]Value, s.Len)
	for i, c := range w.sliceElems(s) {
		out[i] = w.load(c)
	}
	return out
}

func (w *W) makeSliceOf(elem types.Type, vals []Value) SliceV {
	arr := w.newArrayCell(elem, len(vals))
	for i, v := range vals {
		w.store(arr.Kids[i], v)
	}
	return SliceV{Arr: arr, Len: len(vals), Cap: len(vals)}
}

// ---- equality --------------------------------------------------------------

func (w *W) eqValue(a, b Value) *smt.Term {
	switch x := a.(type) {
	case *smt.Term:
		return w.C.Eq(x, b.(*smt.Term))
	case FloatV:
		return w.C.Bool(x.F == b.(FloatV).F)
	case StrV:
		y := b.(StrV)
		if len(x.B) != len(y.B) {
			return w.C.False()
		}
		r := w.C.True()
		for i := range x.B {
			r = w.C.And(r, w.C.Eq(x.B[i], y.B[i]))
			if r.IsFalse() {
				return r
			}
		}
		return r
	case StructV:
		y := b.(StructV)
		r := w.C.True()
		for i := range x.F {
			r = w.C.And(r, w.eqValue(x.F[i], y.F[i]))
			if r.IsFalse() {
				return r
			}
		}
		return r
	case ArrayV:
		y := b.(ArrayV)
		r := w.C.True()
		for i := range x.E {
			r = w.C.And(r, w.eqValue(x.E[i], y.E[i]))
			if r.IsFalse() {
				return r
			}
		}
		return r
	case PtrV:
		y := b.(PtrV)
		if x.Alts != nil || y.Alts != nil {
			w.unsupported("comparison of symbolic-index pointers")
		}
		return w.C.Bool(x.C == y.C)
	case IfaceV:
		y, ok := b.(IfaceV)
		if !ok {
			w.unsupported(fmt.Sprintf("interface compared with %T", b))
		}
		if x.T == nil || y.T == nil {
			return w.C.Bool(x.T == nil && y.T == nil)
		}
		if !types.Identical(x.T, y.T) {
			return w.C.False()
		}
		return w.eqValue(x.V, y.V)
	case SliceV:
		y := b.(SliceV)
		// only comparison with nil is legal in Go
		if y.Nil && y.Arr == nil {
			return w.C.Bool(x.Nil)
		}
		if x.Nil && x.Arr == nil {
			return w.C.Bool(y.Nil)
		}
		w.unsupported("slice comparison")
	case MapV:
		y := b.(MapV)
		return w.C.Bool(x.M == y.M)
	case FuncV:
		y := b.(FuncV)
		if y.IsNil() {
			return w.C.Bool(x.IsNil())
		}
		if x.IsNil() {
			return w.C.Bool(y.IsNil())
		}
		w.unsupported("func comparison")
	case ChanV:
		return w.C.True()
	case TupleV:
		w.unsupported("tuple comparison")
	}
	w.unsupported(fmt.Sprintf("equality on %T", a))
	return nil
}

// ---- maps ------------------------------------------------------------------

// mapFind returns the index of key in m or -1, forking on symbolic equality.
func (w *W) mapFind(m *MapObj, key Value) int {
	if m == nil {
		return -1
	}
	for i, k := range m.Keys {
		e := w.eqValue(k, key)
		if e.IsFalse() {
			continue
		}
		if e.IsTrue() || w.Branch(e) {
			return i
		}
	}
	return -1
}

func (w *W) mapSet(m *MapObj, key, val Value) {
	if m == nil {
		w.goPanicStr("assignment to entry in nil map")
	}
	if m.Frozen && w.initDepth == 0 {
		w.journalMap(m)
	}
	if i := w.mapFind(m, key); i >= 0 {
		m.Vals[i] = val
		return
	}
	m.Keys = append(m.Keys, key)
	m.Vals = append(m.Vals, val)
}

func (w *W) mapDelete(m *MapObj, key Value) {
	if m == nil {
		return
	}
	if m.Frozen && w.initDepth == 0 {
		w.journalMap(m)
	}
	if i := w.mapFind(m, key); i >= 0 {
		m.Keys = append(append([]Value{}, m.Keys[:i]...), m.Keys[i+1:]...)
		m.Vals = append(append([]Value{}, m.Vals[:i]...), m.Vals[i+1:]...)
	}
}

// ---- helpers ---------------------------------------------------------------

func (w *W) bvInt(v int64) *smt.Term { return w.C.BVi(v, 64) }

func (w *W) termOf(v Value) *smt.Term {
	t, ok := v.(*smt.Term)
	if !ok {
		panic(fmt.Sprintf("sx: expected scalar, got %T", v))
	}
	return t
}

// concInt returns the concrete value of an integer term, concretizing
// (forking over feasible values) when it is symbolic.
func (w *W) concInt(t *smt.Term, signed bool, what string) int64 {
	if !t.IsConst() {
		t = w.Concretize(t, what)
	}
	if signed {
		return t.Int64()
	}
	if t.Val.BitLen() > 62 {
		return int64(1) << 62
	}
	return int64(t.Val.Uint64())
}

func bigOf(u uint64) *big.Int { return new(big.Int).SetUint64(u) }

// ---- undo journal for package-level state -------------------------------------

type undoRec struct {
	cell   *Cell
	v      Value
	poison string
	m      *MapObj
	keys   []Value
	vals   []Value
}

func (w *W) journalMap(m *MapObj) {
	for _, u := range w.journal {
		if u.m == m {
			return
		}
	}
	w.journal = append(w.journal, undoRec{m: m, keys: append([]Value{}, m.Keys...), vals: append([]Value{}, m.Vals...)})
}

// undoGlobals restores package-level cells and maps written by the last path.
func (w *W) undoGlobals() {
	for i := len(w.journal) - 1; i >= 0; i-- {
		u := w.journal[i]
		if u.m != nil {
			u.m.Keys, u.m.Vals = u.keys, u.vals
			continue
		}
		u.cell.V, u.cell.Poison = u.v, u.poison
	}
	w.journal = w.journal[:0]
}
