package sx

import (
	"go/types"

	"gosx/smt"

	"golang.org/x/tools/go/ssa"
)

// Library functions whose real bodies are assembly or go through unsafe /
// reflectlite, implemented on the engine's value model.

func (w *W) bytesOf(v Value) []*smt.Term {
	switch x := v.(type) {
	case StrV:
		return x.B
	case SliceV:
		return w.sliceBytes(x)
	}
	panic("sx: bytesOf")
}

// indexOf returns the first index of pat in s as a 64-bit term (-1 if absent).
func (w *W) indexOf(s, pat []*smt.Term) *smt.Term {
	c := w.C
	res := c.BVi(-1, 64)
	if len(pat) > len(s) {
		return res
	}
	for i := len(s) - len(pat); i >= 0; i-- {
		m := c.True()
		for j := range pat {
			m = c.And(m, c.Eq(s[i+j], pat[j]))
			if m.IsFalse() {
				break
			}
		}
		res = c.Ite(m, c.BVi(int64(i), 64), res)
	}
	return res
}

func (w *W) lastIndexOf(s, pat []*smt.Term) *smt.Term {
	c := w.C
	res := c.BVi(-1, 64)
	for i := 0; i+len(pat) <= len(s); i++ {
		m := c.True()
		for j := range pat {
			m = c.And(m, c.Eq(s[i+j], pat[j]))
			if m.IsFalse() {
				break
			}
		}
		res = c.Ite(m, c.BVi(int64(i), 64), res)
	}
	return res
}

func (w *W) countByte(s []*smt.Term, b *smt.Term) *smt.Term {
	c := w.C
	n := c.BVu(0, 64)
	for _, x := range s {
		n = c.Add(n, c.Ite(c.Eq(x, b), c.BVu(1, 64), c.BVu(0, 64)))
	}
	return n
}

func (w *W) compareBytes(a, b []*smt.Term) *smt.Term {
	c := w.C
	lt := w.bytesLess(a, b, false)
	gt := w.bytesLess(b, a, false)
	return c.Ite(lt, c.BVi(-1, 64), c.Ite(gt, c.BVi(1, 64), c.BVi(0, 64)))
}

func (w *W) eqBytes(a, b []*smt.Term) *smt.Term {
	return w.eqValue(StrV{B: a}, StrV{B: b})
}

func registerStd2(e *Engine) {
	idx := func(w *W, fn *ssa.Function, a []Value) Value {
		return w.indexOf(w.bytesOf(a[0]), w.bytesOf(a[1]))
	}
	idxByte := func(w *W, fn *ssa.Function, a []Value) Value {
		return w.indexOf(w.bytesOf(a[0]), []*smt.Term{w.termOf(a[1])})
	}
	for _, n := range []string{"strings.Index", "bytes.Index", "internal/bytealg.Index", "internal/bytealg.IndexString"} {
		e.AddRule(n, idx)
	}
	for _, n := range []string{"strings.IndexByte", "bytes.IndexByte", "internal/bytealg.IndexByte", "internal/bytealg.IndexByteString"} {
		e.AddRule(n, idxByte)
	}
	// IndexAny with a concrete ASCII character set: the first byte of s that is in the
	// set (multi-byte and invalid sequences never match an ASCII character)
	indexAny := func(w *W, fn *ssa.Function, a []Value) Value {
		chars, ok := concreteStr(StrV{B: w.bytesOf(a[1])})
		if !ok {
			w.unsupported(fn.String() + " with a symbolic character set")
		}
		for i := 0; i < len(chars); i++ {
			if chars[i] >= 0x80 {
				w.unsupported(fn.String() + " with a non-ASCII character set")
			}
		}
		sb := w.bytesOf(a[0])
		res := w.C.BVi(-1, 64)
		for i := len(sb) - 1; i >= 0; i-- {
			hit := w.C.False()
			for j := 0; j < len(chars); j++ {
				hit = w.C.Or(hit, w.C.Eq(sb[i], w.C.BVu(uint64(chars[j]), 8)))
			}
			res = w.C.Ite(hit, w.C.BVi(int64(i), 64), res)
		}
		return res
	}
	e.AddRule("strings.IndexAny", indexAny)
	e.AddRule("bytes.IndexAny", indexAny)
	e.AddRule("strings.LastIndex", func(w *W, fn *ssa.Function, a []Value) Value {
		return w.lastIndexOf(w.bytesOf(a[0]), w.bytesOf(a[1]))
	})
	e.AddRule("bytes.LastIndex", func(w *W, fn *ssa.Function, a []Value) Value {
		return w.lastIndexOf(w.bytesOf(a[0]), w.bytesOf(a[1]))
	})
	lastByte := func(w *W, fn *ssa.Function, a []Value) Value {
		return w.lastIndexOf(w.bytesOf(a[0]), []*smt.Term{w.termOf(a[1])})
	}
	e.AddRule("strings.LastIndexByte", lastByte)
	e.AddRule("bytes.LastIndexByte", lastByte)
	e.AddRule("internal/bytealg.LastIndexByte", lastByte)
	e.AddRule("internal/bytealg.LastIndexByteString", lastByte)
	e.AddRule("strings.Contains", func(w *W, fn *ssa.Function, a []Value) Value {
		return w.C.Not(w.C.Eq(w.indexOf(w.bytesOf(a[0]), w.bytesOf(a[1])), w.C.BVi(-1, 64)))
	})
	e.AddRule("bytes.Contains", func(w *W, fn *ssa.Function, a []Value) Value {
		return w.C.Not(w.C.Eq(w.indexOf(w.bytesOf(a[0]), w.bytesOf(a[1])), w.C.BVi(-1, 64)))
	})
	cnt := func(w *W, fn *ssa.Function, a []Value) Value {
		return w.countByte(w.bytesOf(a[0]), w.termOf(a[1]))
	}
	e.AddRule("internal/bytealg.Count", cnt)
	e.AddRule("internal/bytealg.CountString", cnt)
	e.AddRule("internal/bytealg.Equal", func(w *W, fn *ssa.Function, a []Value) Value {
		return w.eqBytes(w.bytesOf(a[0]), w.bytesOf(a[1]))
	})
	e.AddRule("bytes.Equal", func(w *W, fn *ssa.Function, a []Value) Value {
		return w.eqBytes(w.bytesOf(a[0]), w.bytesOf(a[1]))
	})
	cmp := func(w *W, fn *ssa.Function, a []Value) Value {
		return w.compareBytes(w.bytesOf(a[0]), w.bytesOf(a[1]))
	}
	e.AddRule("internal/bytealg.Compare", cmp)
	e.AddRule("bytes.Compare", cmp)
	e.AddRule("strings.Compare", cmp)
	e.AddRule("internal/bytealg.CompareString", cmp)
	e.AddRule("internal/bytealg.MakeNoZero", func(w *W, fn *ssa.Function, a []Value) Value {
		n := int(w.concInt(w.termOf(a[0]), true, "MakeNoZero length"))
		arr := w.newArrayCell(types.Typ[types.Uint8], n)
		return SliceV{Arr: arr, Len: n, Cap: n}
	})
	ident := func(w *W, fn *ssa.Function, a []Value) Value { return a[0] }
	e.AddRule("internal/abi.NoEscape", ident)
	e.AddRule("internal/abi.Escape", ident)
	e.AddRule("strings.noescape", ident)

	// errors.Is / errors.As without reflectlite
	e.AddRule("errors.Is", func(w *W, fn *ssa.Function, a []Value) Value {
		err, ok := a[0].(IfaceV)
		target := a[1].(IfaceV)
		if !ok {
			w.unsupported("errors.Is on non-interface")
		}
		for depth := 0; depth < 32; depth++ {
			if err.T == nil || target.T == nil {
				return w.C.Bool(err.T == nil && target.T == nil)
			}
			if types.Comparable(err.T) {
				eq := w.eqValue(err, target)
				if eq.IsTrue() || (!eq.IsFalse() && w.Branch(eq)) {
					return w.C.True()
				}
			}
			if m := w.methodOf(err.T, "Is"); m != nil && m.Signature.Params().Len() == 1 {
				r := w.callFunc(m, nil, []Value{err.V, target})
				if rt, ok := r.(*smt.Term); ok && (rt.IsTrue() || (!rt.IsFalse() && w.Branch(rt))) {
					return w.C.True()
				}
			}
			m := w.methodOf(err.T, "Unwrap")
			if m == nil || m.Signature.Results().Len() != 1 || !isErrorType(m.Signature.Results().At(0).Type()) {
				return w.C.False()
			}
			next, ok := w.callFunc(m, nil, []Value{err.V}).(IfaceV)
			if !ok || next.T == nil {
				return w.C.False()
			}
			err = next
		}
		w.unsupported("errors.Is: unwrap chain too long")
		return nil
	})
	// sort.Slice / sort.SliceStable: the real pdqsort / insertion sort bodies
	// run; only the reflect-based swapper is replaced.
	sortSlice := func(impl string) Rule {
		return func(w *W, fn *ssa.Function, a []Value) Value {
			iv := a[0].(IfaceV)
			s, ok := iv.V.(SliceV)
			if !ok {
				w.goPanicStr("sort.Slice: not a slice")
			}
			swap := FuncV{Name: "swapper", Nat: func(w *W, args []Value) Value {
				i := int(w.concInt(w.termOf(args[0]), true, "swap index"))
				j := int(w.concInt(w.termOf(args[1]), true, "swap index"))
				ci, cj := s.Arr.Kids[s.Off+i], s.Arr.Kids[s.Off+j]
				vi, vj := w.load(ci), w.load(cj)
				w.store(ci, vj)
				w.store(cj, vi)
				return TupleV{}
			}}
			sp := w.E.Pkgs["sort"]
			data := StructV{F: []Value{a[1], swap}}
			n := int64(s.Len)
			if impl == "stable" {
				return w.callFunc(sp.Func("stable_func"), nil, []Value{data, w.bvInt(n)})
			}
			limit := int64(0)
			for x := n; x > 0; x >>= 1 {
				limit++
			}
			return w.callFunc(sp.Func("pdqsort_func"), nil, []Value{data, w.bvInt(0), w.bvInt(n), w.bvInt(limit)})
		}
	}
	e.AddRule("sort.Slice", sortSlice("pdq"))
	e.AddRule("sort.SliceStable", sortSlice("stable"))
	e.AddRule("errors.Unwrap", func(w *W, fn *ssa.Function, a []Value) Value {
		err := a[0].(IfaceV)
		if err.T == nil {
			return IfaceV{}
		}
		m := w.methodOf(err.T, "Unwrap")
		if m == nil || m.Signature.Results().Len() != 1 || !isErrorType(m.Signature.Results().At(0).Type()) {
			return IfaceV{}
		}
		return w.callFunc(m, nil, []Value{err.V})
	})
}

// methodOf finds method name in the method set of t (nil if absent).
func (w *W) methodOf(t types.Type, name string) *ssa.Function {
	w.E.mu.Lock()
	ms := w.E.Prog.MethodSets.MethodSet(t)
	w.E.mu.Unlock()
	for i := 0; i < ms.Len(); i++ {
		sel := ms.At(i)
		if sel.Obj().Name() == name {
			w.E.mu.Lock()
			fn := w.E.Prog.MethodValue(sel)
			w.E.mu.Unlock()
			return fn
		}
	}
	return nil
}
