package sx

import (
	"fmt"
	"go/token"
	"go/types"
	"math"
	"unicode/utf8"

	"gosx/smt"

	"golang.org/x/tools/go/ssa"
)

func (w *W) binop(op token.Token, a, b Value, at, bt types.Type) Value {
	c := w.C
	switch x := a.(type) {
	case *smt.Term:
		y, ok := b.(*smt.Term)
		if !ok {
			panic(fmt.Sprintf("sx: binop %s on term and %T", op, b))
		}
		if x.W == 0 { // bool
			switch op {
			case token.EQL:
				return c.Eq(x, y)
			case token.NEQ:
				return c.Not(c.Eq(x, y))
			case token.AND, token.LAND:
				return c.And(x, y)
			case token.OR, token.LOR:
				return c.Or(x, y)
			}
			w.unsupported("bool binop " + op.String())
		}
		_, sgn, _ := intWidth(at)
		switch op {
		case token.ADD:
			return c.Add(x, y)
		case token.SUB:
			return c.Sub(x, y)
		case token.MUL:
			return c.Mul(x, y)
		case token.QUO, token.REM:
			if w.Branch(c.Eq(y, c.BVu(0, y.W))) {
				w.goPanicStr("runtime error: integer divide by zero")
			}
			if op == token.QUO {
				if sgn {
					return c.SDiv(x, y)
				}
				return c.UDiv(x, y)
			}
			if sgn {
				return c.SRem(x, y)
			}
			return c.URem(x, y)
		case token.AND:
			return c.BAnd(x, y)
		case token.OR:
			return c.BOr(x, y)
		case token.XOR:
			return c.BXor(x, y)
		case token.AND_NOT:
			return c.BAnd(x, c.BNot(y))
		case token.SHL, token.SHR:
			_, ysgn, _ := intWidth(bt)
			if ysgn && !y.IsConst() {
				if w.Branch(c.Slt(y, c.BVu(0, y.W))) {
					w.goPanicStr("runtime error: negative shift amount")
				}
			} else if ysgn && y.Int64() < 0 {
				w.goPanicStr("runtime error: negative shift amount")
			}
			// bring the shift count to x's width, saturating
			var cnt *smt.Term
			switch {
			case y.W == x.W:
				cnt = y
			case y.W < x.W:
				cnt = c.ZExt(y, x.W-y.W)
			default:
				big := c.Uge(y, c.BVu(uint64(x.W), y.W))
				cnt = c.Ite(big, c.BVu(uint64(x.W), x.W), c.Extract(y, x.W-1, 0))
			}
			if op == token.SHL {
				return c.Shl(x, cnt)
			}
			if sgn {
				return c.Ashr(x, cnt)
			}
			return c.Lshr(x, cnt)
		case token.EQL:
			return c.Eq(x, y)
		case token.NEQ:
			return c.Not(c.Eq(x, y))
		case token.LSS:
			if sgn {
				return c.Slt(x, y)
			}
			return c.Ult(x, y)
		case token.LEQ:
			if sgn {
				return c.Sle(x, y)
			}
			return c.Ule(x, y)
		case token.GTR:
			if sgn {
				return c.Sgt(x, y)
			}
			return c.Ugt(x, y)
		case token.GEQ:
			if sgn {
				return c.Sge(x, y)
			}
			return c.Uge(x, y)
		}
		w.unsupported("int binop " + op.String())
	case FloatV:
		y := b.(FloatV)
		switch op {
		case token.ADD:
			return FloatV{x.F + y.F}
		case token.SUB:
			return FloatV{x.F - y.F}
		case token.MUL:
			return FloatV{x.F * y.F}
		case token.QUO:
			return FloatV{x.F / y.F}
		case token.EQL:
			return c.Bool(x.F == y.F)
		case token.NEQ:
			return c.Bool(x.F != y.F)
		case token.LSS:
			return c.Bool(x.F < y.F)
		case token.LEQ:
			return c.Bool(x.F <= y.F)
		case token.GTR:
			return c.Bool(x.F > y.F)
		case token.GEQ:
			return c.Bool(x.F >= y.F)
		}
	case StrV:
		y := b.(StrV)
		switch op {
		case token.ADD:
			nb := make([]*smt.Term, 0, len(x.B)+len(y.B))
			nb = append(append(nb, x.B...), y.B...)
			return StrV{B: nb}
		case token.EQL:
			return w.eqValue(x, y)
		case token.NEQ:
			return c.Not(w.eqValue(x, y))
		case token.LSS:
			return w.strLess(x, y, false)
		case token.LEQ:
			return w.strLess(x, y, true)
		case token.GTR:
			return w.strLess(y, x, false)
		case token.GEQ:
			return w.strLess(y, x, true)
		}
	}
	switch op {
	case token.EQL:
		return w.eqValue(a, b)
	case token.NEQ:
		return c.Not(w.eqValue(a, b))
	}
	w.unsupported(fmt.Sprintf("binop %s on %T", op, a))
	return nil
}

// strLess: lexicographic a < b (or a <= b).
func (w *W) strLess(a, b StrV, orEq bool) *smt.Term {
	return w.bytesLess(a.B, b.B, orEq)
}

func (w *W) bytesLess(a, b []*smt.Term, orEq bool) *smt.Term {
	c := w.C
	n := len(a)
	if len(b) < n {
		n = len(b)
	}
	// tail result when the common prefix is equal
	var res *smt.Term
	if len(a) < len(b) {
		res = c.True()
	} else if len(a) == len(b) {
		res = c.Bool(orEq)
	} else {
		res = c.False()
	}
	for i := n - 1; i >= 0; i-- {
		res = c.Ite(c.Eq(a[i], b[i]), res, c.Ult(a[i], b[i]))
	}
	return res
}

func (w *W) unop(fr *frame, x *ssa.UnOp) Value {
	v := w.get(fr, x.X)
	switch x.Op {
	case token.MUL:
		return w.loadPtr(v.(PtrV))
	case token.NOT:
		return w.C.Not(v.(*smt.Term))
	case token.SUB:
		if f, ok := v.(FloatV); ok {
			return FloatV{-f.F}
		}
		return w.C.Neg(v.(*smt.Term))
	case token.XOR:
		return w.C.BNot(v.(*smt.Term))
	case token.ARROW:
		w.unsupported("channel receive")
	}
	w.unsupported("unop " + x.Op.String())
	return nil
}

func (w *W) convert(v Value, from, to types.Type) Value {
	c := w.C
	fu, tu := from.Underlying(), to.Underlying()
	if fw, fs, ok := intWidth(fu); ok && fw > 0 {
		if tw, _, ok := intWidth(tu); ok && tw > 0 {
			return c.Resize(v.(*smt.Term), tw, fs)
		}
		if isFloat(tu) {
			t := v.(*smt.Term)
			if !t.IsConst() {
				// floats are concrete here: decide the integer's value on this path
				t = w.Concretize(t, "int to float conversion")
			}
			if fs {
				return FloatV{float64(t.Int64())}
			}
			return FloatV{float64(t.Uint64())}
		}
		if isString(tu) {
			t := v.(*smt.Term)
			if !t.IsConst() {
				w.unsupported("symbolic rune to string conversion")
			}
			return w.strConst(string(rune(t.Int64())))
		}
	}
	if f, ok := v.(FloatV); ok {
		if isFloat(tu) {
			if b := tu.(*types.Basic); b.Kind() == types.Float32 {
				return FloatV{float64(float32(f.F))}
			}
			return f
		}
		if tw, ts, ok := intWidth(tu); ok && tw > 0 {
			if ts {
				return c.BVi(int64(f.F), tw)
			}
			if f.F >= math.MaxInt64 {
				return c.BVu(uint64(f.F), tw)
			}
			return c.BVu(uint64(int64(f.F)), tw)
		}
	}
	if s, ok := v.(StrV); ok {
		if isString(tu) {
			return s
		}
		if sl, ok := tu.(*types.Slice); ok {
			eb, _ := sl.Elem().Underlying().(*types.Basic)
			if eb != nil && eb.Kind() == types.Uint8 {
				return w.makeByteSlice(s.B)
			}
			if eb != nil && eb.Kind() == types.Int32 {
				var rs []Value
				for i := 0; i < len(s.B); {
					r, n := w.decodeRune(s.B[i:])
					rs = append(rs, r)
					i += n
				}
				return w.makeSliceOf(sl.Elem(), rs)
			}
		}
	}
	if s, ok := v.(SliceV); ok {
		if isString(tu) {
			sl := fu.(*types.Slice)
			eb := sl.Elem().Underlying().(*types.Basic)
			if eb.Kind() == types.Uint8 {
				return StrV{B: w.sliceBytes(s)}
			}
			if eb.Kind() == types.Int32 {
				var out []*smt.Term
				for _, rv := range w.sliceValues(s) {
					r := rv.(*smt.Term)
					if !r.IsConst() {
						// ASCII fast path, else unsupported
						if w.Branch(c.Ult(r, c.BVu(0x80, 32))) {
							out = append(out, c.Extract(r, 7, 0))
							continue
						}
						w.unsupported("symbolic non-ASCII rune to string")
					}
					var buf [4]byte
					n := utf8.EncodeRune(buf[:], rune(r.Int64()))
					for _, bb := range buf[:n] {
						out = append(out, c.BVu(uint64(bb), 8))
					}
				}
				return StrV{B: out}
			}
		}
		if _, ok := tu.(*types.Slice); ok {
			return s
		}
	}
	if pt, ok := tu.(*types.Pointer); ok {
		if p, ok := v.(PtrV); ok {
			// unsafe.Pointer -> *T is only supported when it undoes a *T -> unsafe.Pointer
			if p.C != nil && !types.Identical(p.C.T.Underlying(), pt.Elem().Underlying()) {
				w.unsupported(fmt.Sprintf("pointer type punning %s -> %s", p.C.T, pt.Elem()))
			}
			return p
		}
	}
	if b, ok := tu.(*types.Basic); ok && b.Kind() == types.UnsafePointer {
		if p, ok := v.(PtrV); ok {
			return p
		}
		w.unsupported("conversion to unsafe.Pointer")
	}
	w.unsupported(fmt.Sprintf("conversion %s -> %s", from, to))
	return nil
}

func (w *W) makeSlice(fr *frame, x *ssa.MakeSlice) Value {
	c := w.C
	lt := w.termOf(w.get(fr, x.Len))
	ct := w.termOf(w.get(fr, x.Cap))
	lt = c.Resize(lt, 64, true)
	ct = c.Resize(ct, 64, true)
	lim := c.BVu(1<<24, 64)
	if !lt.IsConst() {
		if w.Branch(c.Or(c.Slt(lt, c.BVu(0, 64)), c.Ugt(lt, lim))) {
			w.goPanicStr("runtime error: makeslice: len out of range")
		}
	}
	n := w.concInt(lt, true, "make([]T, len)")
	if n < 0 || n > 1<<24 {
		w.goPanicStr("runtime error: makeslice: len out of range")
	}
	if !ct.IsConst() {
		if w.Branch(c.Or(c.Slt(ct, lt), c.Ugt(ct, lim))) {
			w.goPanicStr("runtime error: makeslice: cap out of range")
		}
	}
	cp := w.concInt(ct, true, "make([]T, len, cap)")
	if cp < n || cp > 1<<24 {
		w.goPanicStr("runtime error: makeslice: cap out of range")
	}
	elem := x.Type().Underlying().(*types.Slice).Elem()
	arr := w.newArrayCell(elem, int(cp))
	return SliceV{Arr: arr, Len: int(n), Cap: int(cp)}
}

// boundIndex checks idx against n (forking a panic path) and returns a term of width 64.
func (w *W) boundIndex(idx *smt.Term, it types.Type, n int) *smt.Term {
	c := w.C
	_, sgn, _ := intWidth(it)
	i64 := c.Resize(idx, 64, sgn)
	inb := c.Ult(i64, c.BVu(uint64(n), 64))
	if !w.Branch(inb) {
		w.goPanicStr(fmt.Sprintf("runtime error: index out of range [..] with length %d", n))
	}
	return i64
}

func (w *W) indexAddr(fr *frame, x *ssa.IndexAddr) Value {
	base := w.get(fr, x.X)
	idx := w.termOf(w.get(fr, x.Index))
	var kids []*Cell
	switch b := base.(type) {
	case SliceV:
		kids = w.sliceElems(b)
	case PtrV:
		if b.Alts != nil {
			w.unsupported("index through symbolic pointer")
		}
		if b.C == nil {
			w.goPanicStr("runtime error: invalid memory address or nil pointer dereference")
		}
		kids = b.C.Kids
	default:
		panic(fmt.Sprintf("sx: IndexAddr on %T", base))
	}
	i64 := w.boundIndex(idx, x.Index.Type(), len(kids))
	if i64.IsConst() {
		return PtrV{C: kids[i64.Uint64()]}
	}
	if len(kids) > w.H.maxSymIndex() {
		k := w.Concretize(i64, "index")
		return PtrV{C: kids[k.Uint64()]}
	}
	alts := make([]PtrAlt, 0, len(kids))
	for i, k := range kids {
		g := w.C.Eq(i64, w.C.BVu(uint64(i), 64))
		if g.IsFalse() {
			continue
		}
		alts = append(alts, PtrAlt{G: g, C: k})
	}
	return PtrV{Alts: alts}
}

func (w *W) index(fr *frame, x *ssa.Index) Value {
	base := w.get(fr, x.X)
	idx := w.termOf(w.get(fr, x.Index))
	switch b := base.(type) {
	case ArrayV:
		i64 := w.boundIndex(idx, x.Index.Type(), len(b.E))
		if i64.IsConst() {
			return b.E[i64.Uint64()]
		}
		return w.selectValue(i64, b.E)
	case StrV:
		i64 := w.boundIndex(idx, x.Index.Type(), len(b.B))
		if i64.IsConst() {
			return b.B[i64.Uint64()]
		}
		vals := make([]Value, len(b.B))
		for i, t := range b.B {
			vals[i] = t
		}
		return w.selectValue(i64, vals)
	}
	panic(fmt.Sprintf("sx: Index on %T", base))
}

// selectValue returns vals[i] for symbolic i known to be in range.
func (w *W) selectValue(i64 *smt.Term, vals []Value) Value {
	if len(vals) > w.H.maxSymIndex() {
		k := w.Concretize(i64, "index")
		return vals[k.Uint64()]
	}
	res := vals[len(vals)-1]
	for i := len(vals) - 2; i >= 0; i-- {
		res = w.mergeIte(w.C.Eq(i64, w.C.BVu(uint64(i), 64)), vals[i], res)
	}
	return res
}

func (w *W) lookup(fr *frame, x *ssa.Lookup) Value {
	base := w.get(fr, x.X)
	switch b := base.(type) {
	case StrV:
		idx := w.termOf(w.get(fr, x.Index))
		i64 := w.boundIndex(idx, x.Index.Type(), len(b.B))
		if i64.IsConst() {
			return b.B[i64.Uint64()]
		}
		vals := make([]Value, len(b.B))
		for i, t := range b.B {
			vals[i] = t
		}
		return w.selectValue(i64, vals)
	case MapV:
		key := w.get(fr, x.Index)
		vt := x.X.Type().Underlying().(*types.Map).Elem()
		i := w.mapFind(b.M, key)
		var v Value
		if i >= 0 {
			v = b.M.Vals[i]
		} else {
			v = w.zero(vt)
		}
		if x.CommaOk {
			return TupleV{v, w.C.Bool(i >= 0)}
		}
		return v
	}
	panic(fmt.Sprintf("sx: Lookup on %T", base))
}

func (w *W) sliceOp(fr *frame, x *ssa.Slice) Value {
	c := w.C
	base := w.get(fr, x.X)
	var length, capacity int
	switch b := base.(type) {
	case SliceV:
		length, capacity = b.Len, b.Cap
	case StrV:
		length, capacity = len(b.B), len(b.B)
	case PtrV:
		if b.C == nil {
			w.goPanicStr("runtime error: invalid memory address or nil pointer dereference")
		}
		length, capacity = len(b.C.Kids), len(b.C.Kids)
	}
	getIdx := func(v ssa.Value, def int) *smt.Term {
		if v == nil {
			return c.BVu(uint64(def), 64)
		}
		t := w.termOf(w.get(fr, v))
		_, sgn, _ := intWidth(v.Type())
		return c.Resize(t, 64, sgn)
	}
	lo := getIdx(x.Low, 0)
	hi := getIdx(x.High, length)
	mx := getIdx(x.Max, capacity)
	// bounds: 0 <= lo <= hi <= max <= cap  (unsigned compare catches negatives)
	okT := c.AndN(c.Ule(mx, c.BVu(uint64(capacity), 64)), c.Ule(hi, mx), c.Ule(lo, hi))
	if _, isStr := base.(StrV); isStr {
		okT = c.AndN(c.Ule(hi, c.BVu(uint64(length), 64)), c.Ule(lo, hi))
	}
	if !w.Branch(okT) {
		w.goPanicStr(fmt.Sprintf("runtime error: slice bounds out of range (len %d cap %d)", length, capacity))
	}
	l := int(w.concInt(lo, false, "slice low bound"))
	h := int(w.concInt(hi, false, "slice high bound"))
	m := capacity
	if x.Max != nil {
		m = int(w.concInt(mx, false, "slice max bound"))
	}
	switch b := base.(type) {
	case SliceV:
		if b.Nil {
			return b
		}
		return SliceV{Arr: b.Arr, Off: b.Off + l, Len: h - l, Cap: m - l}
	case StrV:
		return StrV{B: b.B[l:h]}
	case PtrV:
		return SliceV{Arr: b.C, Off: l, Len: h - l, Cap: m - l}
	}
	panic("sx: slice of unknown base")
}

// ---- builtins --------------------------------------------------------------

func (w *W) builtin(fr *frame, name string, args []Value, call *ssa.CallCommon) Value {
	c := w.C
	switch name {
	case "len":
		switch x := args[0].(type) {
		case SliceV:
			return w.bvInt(int64(x.Len))
		case StrV:
			return w.bvInt(int64(len(x.B)))
		case MapV:
			if x.M == nil {
				return w.bvInt(0)
			}
			return w.bvInt(int64(len(x.M.Keys)))
		case PtrV:
			return w.bvInt(int64(len(x.C.Kids)))
		case ArrayV:
			return w.bvInt(int64(len(x.E)))
		case ChanV:
			return w.bvInt(0)
		}
	case "cap":
		switch x := args[0].(type) {
		case SliceV:
			return w.bvInt(int64(x.Cap))
		case PtrV:
			return w.bvInt(int64(len(x.C.Kids)))
		case ArrayV:
			return w.bvInt(int64(len(x.E)))
		}
	case "append":
		s := args[0].(SliceV)
		var add []Value
		switch y := args[1].(type) {
		case SliceV:
			add = w.sliceValues(y)
		case StrV:
			for _, b := range y.B {
				add = append(add, b)
			}
		}
		elem := call.Args[0].Type().Underlying().(*types.Slice).Elem()
		return w.appendVals(s, add, elem)
	case "copy":
		dst := args[0].(SliceV)
		var src []Value
		switch y := args[1].(type) {
		case SliceV:
			src = w.sliceValues(y)
		case StrV:
			for _, b := range y.B {
				src = append(src, b)
			}
		}
		n := dst.Len
		if len(src) < n {
			n = len(src)
		}
		for i := 0; i < n; i++ {
			w.store(dst.Arr.Kids[dst.Off+i], src[i])
		}
		return w.bvInt(int64(n))
	case "delete":
		w.mapDelete(args[0].(MapV).M, args[1])
		return TupleV{}
	case "panic":
		panic(&goPanic{V: args[0], Msg: w.describePanic(args[0]), Pos: w.where()})
	case "recover":
		// find the nearest frame that is running defers with an active panic
		for f := fr; f != nil; f = f.caller {
			if f.panic != nil {
				v := f.panic.V
				f.panic = nil
				return v
			}
		}
		return IfaceV{}
	case "print", "println":
		return TupleV{}
	case "min", "max":
		r := args[0]
		t := call.Args[0].Type()
		for _, a := range args[1:] {
			var less Value
			if name == "min" {
				less = w.binop(token.LSS, a, r, t, t)
			} else {
				less = w.binop(token.GTR, a, r, t, t)
			}
			r = w.mergeIte(less.(*smt.Term), a, r)
		}
		return r
	case "clear":
		switch x := args[0].(type) {
		case MapV:
			if x.M != nil {
				x.M.Keys, x.M.Vals = nil, nil
			}
		case SliceV:
			et := call.Args[0].Type().Underlying().(*types.Slice).Elem()
			for _, k := range w.sliceElems(x) {
				w.store(k, w.zero(et))
			}
		}
		return TupleV{}
	case "SliceData":
		s := args[0].(SliceV)
		if s.Nil || s.Cap == 0 {
			return PtrV{}
		}
		return PtrV{C: s.Arr.Kids[s.Off]}
	case "StringData":
		// immutable: materialise a private byte array
		s := args[0].(StrV)
		if len(s.B) == 0 {
			return PtrV{}
		}
		sl := w.makeByteSlice(s.B)
		return PtrV{C: sl.Arr.Kids[0]}
	case "String", "Slice":
		p := args[0].(PtrV)
		n := int(w.concInt(w.termOf(args[1]), true, "unsafe."+name+" length"))
		if n == 0 {
			if name == "String" {
				return StrV{}
			}
			return SliceV{Nil: p.C == nil}
		}
		if p.C == nil || p.C.Up == nil {
			w.unsupported("unsafe." + name + " on a pointer that is not an array element")
		}
		arr, idx := p.C.Up, p.C.Idx
		if idx+n > len(arr.Kids) {
			w.unsupported("unsafe." + name + " beyond the backing array")
		}
		if name == "Slice" {
			return SliceV{Arr: arr, Off: idx, Len: n, Cap: n}
		}
		bs := make([]*smt.Term, n)
		for i := range bs {
			bs[i] = w.load(arr.Kids[idx+i]).(*smt.Term)
		}
		return StrV{B: bs}
	case "ssa:wrapnilchk":
		p := args[0].(PtrV)
		if p.C == nil && p.Alts == nil {
			w.goPanicStr("runtime error: value method called using nil pointer")
		}
		return p
	}
	_ = c
	w.unsupported("builtin " + name)
	return nil
}

func (w *W) appendVals(s SliceV, add []Value, elem types.Type) SliceV {
	if len(add) == 0 {
		return s
	}
	need := s.Len + len(add)
	if !s.Nil && need <= s.Cap {
		for i, v := range add {
			w.store(s.Arr.Kids[s.Off+s.Len+i], v)
		}
		return SliceV{Arr: s.Arr, Off: s.Off, Len: need, Cap: s.Cap}
	}
	newCap := s.Cap * 2
	if newCap < need {
		newCap = need
	}
	arr := w.newArrayCell(elem, newCap)
	for i, k := range w.sliceElems(s) {
		w.store(arr.Kids[i], w.load(k))
	}
	for i, v := range add {
		w.store(arr.Kids[s.Len+i], v)
	}
	return SliceV{Arr: arr, Len: need, Cap: newCap}
}
