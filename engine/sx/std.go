package sx

import (
	"go/types"
	"math"
	"strconv"

	"gosx/smt"

	"golang.org/x/tools/go/ssa"
)

func registerStd(e *Engine) {
	noop := []string{
		"(*sync.Mutex).Lock", "(*sync.Mutex).Unlock", "(*sync.RWMutex).Lock", "(*sync.RWMutex).Unlock",
		"(*sync.RWMutex).RLock", "(*sync.RWMutex).RUnlock", "(*sync.Mutex).TryLock",
		"(*sync.WaitGroup).Add", "(*sync.WaitGroup).Done", "(*sync.WaitGroup).Wait",
		"runtime.KeepAlive", "runtime.GC", "os.Exit", "os.Getenv", "os.LookupEnv", "os.Setenv",
	}
	for _, n := range noop {
		e.AddRule(n, ruleNoop)
	}
	// sync/atomic on the sequential value model: plain loads, stores and read-modify-writes
	for _, ty := range []string{"Int32", "Int64", "Uint32", "Uint64", "Uintptr", "Pointer"} {
		e.AddRule("sync/atomic.Load"+ty, func(w *W, fn *ssa.Function, a []Value) Value { return w.loadPtr(a[0].(PtrV)) })
		e.AddRule("sync/atomic.Store"+ty, func(w *W, fn *ssa.Function, a []Value) Value {
			w.storePtr(a[0].(PtrV), a[1])
			return TupleV{}
		})
		e.AddRule("sync/atomic.Swap"+ty, func(w *W, fn *ssa.Function, a []Value) Value {
			old := w.loadPtr(a[0].(PtrV))
			w.storePtr(a[0].(PtrV), a[1])
			return old
		})
		e.AddRule("sync/atomic.CompareAndSwap"+ty, func(w *W, fn *ssa.Function, a []Value) Value {
			p := a[0].(PtrV)
			eq := w.eqValue(w.loadPtr(p), a[1])
			if w.Branch(eq) {
				w.storePtr(p, a[2])
				return w.C.True()
			}
			return w.C.False()
		})
		if ty != "Pointer" {
			e.AddRule("sync/atomic.Add"+ty, func(w *W, fn *ssa.Function, a []Value) Value {
				p := a[0].(PtrV)
				nv := w.C.Add(w.termOf(w.loadPtr(p)), w.termOf(a[1]))
				w.storePtr(p, nv)
				return nv
			})
		}
	}
	// time.Now: an arbitrary wall-clock instant (no monotonic reading, UTC)
	e.AddRule("time.Now", func(w *W, fn *ssa.Function, a []Value) Value {
		if w.initDepth > 0 {
			// package initialisers run once, concretely: a fixed instant
			return StructV{F: []Value{w.C.BVu(0, 64), w.C.BVu(63700000000, 64), PtrV{}}}
		}
		w.internal++
		defer func() { w.internal-- }()
		secs := w.Fresh("time.Now", 64)
		// keep the instant in a sane range (years 1..9999) so that Unix()/Add do not wrap
		w.Assume(w.C.And(w.C.Sge(secs, w.C.BVu(0, 64)), w.C.Slt(secs, w.C.BVu(300000000000, 64))))
		return StructV{F: []Value{w.C.BVu(0, 64), secs, PtrV{}}}
	})
	// time.Unix(sec, nsec): the instant as a UTC time value (the location only matters for formatting)
	e.AddRule("time.Unix", func(w *W, fn *ssa.Function, a []Value) Value {
		ns := w.termOf(a[1])
		if !ns.IsConst() || ns.Int64() < 0 || ns.Int64() >= 1000000000 {
			w.unsupported("time.Unix with a symbolic or unnormalised nanosecond part")
		}
		ext := w.C.Add(w.termOf(a[0]), w.C.BVu(62135596800, 64))
		return StructV{F: []Value{w.C.Resize(ns, 64, false), ext, PtrV{}}}
	})
	// regular expressions are not executed: compiling yields an opaque object so that
	// package initialisers can proceed; using it is UNSUPPORTED unless a harness rule models the call
	reCompile := func(w *W, fn *ssa.Function, a []Value) Value {
		rp := w.E.Pkgs["regexp"]
		if rp == nil || rp.Type("Regexp") == nil {
			w.unsupported("regexp not loaded")
		}
		p := PtrV{C: w.newCell(rp.Type("Regexp").Type())}
		if fn.Signature.Results().Len() == 2 {
			return TupleV{p, IfaceV{}}
		}
		return p
	}
	e.AddRule("regexp.MustCompile", reCompile)
	e.AddRule("regexp.Compile", reCompile)
	pkgRules["regexp"] = func(w *W, fn *ssa.Function, a []Value) Value {
		w.unsupported("regular expression operation " + fn.String() + " (not modelled)")
		return nil
	}
	// concrete floating point helpers (floats are concrete values in this executor)
	f1 := func(name string, f func(float64) float64) {
		e.AddRule(name, func(w *W, fn *ssa.Function, a []Value) Value {
			x, ok := a[0].(FloatV)
			if !ok {
				w.unsupported(name + " on a non-concrete float")
			}
			return FloatV{f(x.F)}
		})
	}
	f1("math.Abs", math.Abs)
	f1("math.Floor", math.Floor)
	f1("math.Ceil", math.Ceil)
	f1("math.Trunc", math.Trunc)
	f1("math.Log10", math.Log10)
	f1("math.Sqrt", math.Sqrt)
	e.AddRule("math.Pow", func(w *W, fn *ssa.Function, a []Value) Value {
		x, ok1 := a[0].(FloatV)
		y, ok2 := a[1].(FloatV)
		if !ok1 || !ok2 {
			w.unsupported("math.Pow on a non-concrete float")
		}
		return FloatV{math.Pow(x.F, y.F)}
	})
	e.AddRule("math.Float64bits", func(w *W, fn *ssa.Function, a []Value) Value {
		x, ok := a[0].(FloatV)
		if !ok {
			w.unsupported("math.Float64bits on a non-concrete float")
		}
		return w.C.BVu(math.Float64bits(x.F), 64)
	})
	e.AddRule("math.Float64frombits", func(w *W, fn *ssa.Function, a []Value) Value {
		t := w.termOf(a[0])
		if !t.IsConst() {
			w.unsupported("math.Float64frombits on a symbolic value")
		}
		return FloatV{math.Float64frombits(t.Uint64())}
	})
	e.AddRule("math.IsNaN", func(w *W, fn *ssa.Function, a []Value) Value { return w.C.Bool(math.IsNaN(a[0].(FloatV).F)) })
	e.AddRule("math.IsInf", func(w *W, fn *ssa.Function, a []Value) Value {
		return w.C.Bool(math.IsInf(a[0].(FloatV).F, int(w.termOf(a[1]).Int64())))
	})
	e.AddRule("fmt.Sprintf", func(w *W, fn *ssa.Function, a []Value) Value { return w.fmtString(a) })
	e.AddRule("fmt.Sprint", func(w *W, fn *ssa.Function, a []Value) Value { return w.strConst("<fmt.Sprint>") })
	e.AddRule("fmt.Sprintln", func(w *W, fn *ssa.Function, a []Value) Value { return w.strConst("<fmt.Sprintln>") })
	e.AddRule("fmt.Errorf", func(w *W, fn *ssa.Function, a []Value) Value {
		s := w.fmtString(a)
		cs, _ := concreteStr(s)
		return w.opaqueError(cs)
	})
	for _, n := range []string{"fmt.Printf", "fmt.Println", "fmt.Print", "fmt.Fprintf", "fmt.Fprintln", "fmt.Fprint"} {
		e.AddRule(n, ruleNoop)
	}
}

// fmtString renders a format call. Formats that only use %s, %d, %v and %% with
// concrete string / integer arguments are rendered exactly (the "ip:port"
// pattern is the subject of C24/C26); anything else becomes the opaque text
// "<fmt:FORMAT>" (formatting is not modelled).
func (w *W) fmtString(a []Value) StrV {
	s, ok := a[0].(StrV)
	if !ok {
		return w.strConst("<fmt>")
	}
	format, ok := concreteStr(s)
	if !ok {
		return w.strConst("<fmt>")
	}
	opaque := w.strConst("<fmt:" + format + ">")
	var args []Value
	if len(a) > 1 {
		if sl, ok := a[1].(SliceV); ok {
			args = w.sliceValues(sl)
		}
	}
	var out []*smt.Term
	ai := 0
	for i := 0; i < len(format); i++ {
		ch := format[i]
		if ch != '%' {
			out = append(out, w.C.BVu(uint64(ch), 8))
			continue
		}
		i++
		if i >= len(format) {
			return opaque
		}
		verb := format[i]
		if verb == '%' {
			out = append(out, w.C.BVu('%', 8))
			continue
		}
		if (verb != 's' && verb != 'd' && verb != 'v') || ai >= len(args) {
			return opaque
		}
		iv, ok := args[ai].(IfaceV)
		ai++
		if !ok || iv.T == nil {
			return opaque
		}
		switch v := iv.V.(type) {
		case StrV:
			if verb == 'd' {
				return opaque
			}
			out = append(out, v.B...) // symbolic bytes are fine: the length is concrete
		case *smt.Term:
			if !v.IsConst() || v.W == 0 || verb == 's' {
				return opaque
			}
			_, sgn, _ := intWidth(iv.T)
			var txt string
			if sgn {
				txt = strconv.FormatInt(v.Int64(), 10)
			} else {
				txt = v.Val.String()
			}
			for j := 0; j < len(txt); j++ {
				out = append(out, w.C.BVu(uint64(txt[j]), 8))
			}
		default:
			return opaque
		}
	}
	if ai != len(args) {
		return opaque
	}
	return StrV{B: out}
}

var _ = types.Typ
