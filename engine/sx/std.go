package sx

import (
	"go/types"

	"golang.org/x/tools/go/ssa"
)

func registerStd(e *Engine) {
	noop := []string{
		"(*sync.Mutex).Lock", "(*sync.Mutex).Unlock", "(*sync.RWMutex).Lock", "(*sync.RWMutex).Unlock",
		"(*sync.RWMutex).RLock", "(*sync.RWMutex).RUnlock", "(*sync.Mutex).TryLock",
		"(*sync.WaitGroup).Add", "(*sync.WaitGroup).Done", "(*sync.WaitGroup).Wait",
		"runtime.KeepAlive", "runtime.GC", "os.Exit", "os.Getenv", "os.LookupEnv", "os.Setenv",
	}
	for _, n := range noop {
		e.AddRule(n, ruleNoop)
	}
	e.AddRule("fmt.Sprintf", func(w *W, fn *ssa.Function, a []Value) Value { return w.fmtString(a) })
	e.AddRule("fmt.Sprint", func(w *W, fn *ssa.Function, a []Value) Value { return w.strConst("<fmt.Sprint>") })
	e.AddRule("fmt.Sprintln", func(w *W, fn *ssa.Function, a []Value) Value { return w.strConst("<fmt.Sprintln>") })
	e.AddRule("fmt.Errorf", func(w *W, fn *ssa.Function, a []Value) Value {
		s := w.fmtString(a)
		cs, _ := concreteStr(s)
		return w.opaqueError(cs)
	})
	for _, n := range []string{"fmt.Printf", "fmt.Println", "fmt.Print", "fmt.Fprintf", "fmt.Fprintln", "fmt.Fprint"} {
		e.AddRule(n, ruleNoop)
	}
}

// fmtString renders a format call as "<fmt:FORMAT>" (formatting is not modelled).
func (w *W) fmtString(a []Value) StrV {
	if s, ok := a[0].(StrV); ok {
		if cs, ok := concreteStr(s); ok {
			return w.strConst("<fmt:" + cs + ">")
		}
	}
	return w.strConst("<fmt>")
}

var _ = types.Typ
