package sx

import (
	"fmt"
	"os"
	"time"
	"go/constant"
	"go/token"
	"go/types"
	"math/big"
	"sort"
	"strings"

	"gosx/smt"

	"golang.org/x/tools/go/ssa"
)

// Decision is one recorded nondeterministic choice on a path.
type Decision struct {
	Kind   byte // 'b' branch, 'v' value, 'a' assume-feasible
	Taken  bool
	Val    *big.Int
	Forced bool
}

// Pending is an unexplored sibling path: its decision prefix and, if known, a
// model of its path condition at the fork.
type Pending struct {
	Prefix []Decision
	Model  map[string]*big.Int
}

// pathEnd is thrown (as a Go panic) to finish the current path.
type pathEnd struct {
	Status string // done, infeasible, unsupported, unwind, panic, steps
	Msg    string
}

// goPanic is a Go-level panic travelling up the interpreted stack.
type goPanic struct {
	V   Value
	Msg string
	Pos string
}

type NondetRec struct {
	Name string
	Tag  string
	W    int
	Term *smt.Term
	// for concrete choices (vpLen) the chosen value
	Choice   *big.Int
	Internal bool
}

type AssertRec struct {
	Label   string
	Pos     string
	Status  string // proved, trivial, violated, unknown
	Model   []string
	Tags    []string
	Harness string
}

// specAbort aborts a speculative (if-conversion) execution of a block.
type specAbort struct{}

type frame struct {
	phiDone *ssa.BasicBlock // phis of this block were already set by if-conversion
	fn      *ssa.Function
	env     []Value            // indexed by the function's static value numbering
	idx     map[ssa.Value]int  // shared, read-only
	defers  []deferred
	panic   *goPanic
	visits  map[*ssa.BasicBlock]int
	symIter map[ssa.Instruction]int
	result  Value
	caller  *frame
}

type deferred struct {
	fn   Value // FuncV or builtin marker
	args []Value
	call *ssa.CallCommon
}

// W executes one path at a time.
type W struct {
	E *Engine
	C *smt.Ctx
	S *smt.Solver
	H *Harness

	prefix  []Decision
	pos     int
	trace   []Decision
	pending []Pending

	// model is an assignment satisfying every constraint asserted on this path
	// so far (nil if none is known); it lets Branch/Assume/Assert skip queries.
	model     map[string]*big.Int
	modelMemo map[int]*big.Int
	known     map[int]bool // branch conditions already decided on this path

	globals      map[*ssa.Global]*Cell
	initDone     map[*ssa.Package]bool
	initDepth    int
	journal      []undoRec
	cellSeq      int

	nondets         []NondetRec
	asserts         []AssertRec
	reaches         []string
	obsTerms        []*smt.Term // parallel to reaches; non-nil for vpObserve entries
	observes        []string
	steps           int
	depth           int
	top             *frame
	ufApps          map[string][]ufApp
	extra           map[string]interface{} // per-path scratch for intrinsics
	spec            int // > 0: speculative execution (no forks, no side effects allowed)
	IfConversions   int
	funcsHit        map[*ssa.Function]bool
	stubsHit        map[string]int
	unknownBranches int
	internal        int
	runningInit     map[*ssa.Function]bool
	curPos          token.Pos
}

type ufApp struct {
	in  *smt.Term
	out *smt.Term
}

func (w *W) unsupported(msg string) {
	if stackTrace {
		for fr, i := w.top, 0; fr != nil && i < 12; fr, i = fr.caller, i+1 {
			msg += " <- " + fr.fn.String()
		}
	}
	panic(&pathEnd{Status: "unsupported", Msg: msg + w.where()})
}

var stackTrace = os.Getenv("GOSX_STACK") != ""

func (w *W) where() string {
	if w.curPos.IsValid() {
		return " @ " + w.E.Fset.Position(w.curPos).String()
	}
	return ""
}

func (w *W) goPanicStr(msg string) {
	panic(&goPanic{Msg: msg, V: IfaceV{T: types.Typ[types.String], V: w.strConst(msg)}, Pos: w.where()})
}

func (w *W) replaying() bool { return w.pos < len(w.prefix) }

// ---- decisions ---------------------------------------------------------

func (w *W) record(d Decision) { w.trace = append(w.trace, d) }

// evalModel evaluates a Bool term under the current path model.
func (w *W) evalModel(t *smt.Term) (val bool, ok bool) {
	if w.model == nil {
		return false, false
	}
	if w.modelMemo == nil {
		w.modelMemo = map[int]*big.Int{}
	}
	v := smt.EvalMemo(w.C, t, w.model, w.modelMemo)
	if v == nil {
		return false, false
	}
	return v.Sign() != 0, true
}

func (w *W) setModel(m map[string]*big.Int) {
	w.model = m
	w.modelMemo = nil
}

func (w *W) noteKnown(cond *smt.Term, v bool) {
	if w.known == nil {
		w.known = map[int]bool{}
	}
	w.known[cond.ID] = v
	w.known[w.C.Not(cond).ID] = !v
}

// assertRaw adds a constraint that is not a recorded decision (axioms).
func (w *W) assertRaw(t *smt.Term) {
	if t.IsTrue() {
		return
	}
	w.S.Assert(t)
	if w.model != nil && !w.replaying() {
		if v, ok := w.evalModel(t); !ok || !v {
			w.setModel(nil)
		}
	}
}

// Branch decides a symbolic condition on this path, forking if both outcomes
// are feasible.
var branchTrace = os.Getenv("GOSX_BRANCHTRACE") != ""

func (w *W) Branch(cond *smt.Term) bool {
	if cond.IsTrue() {
		return true
	}
	if cond.IsFalse() {
		return false
	}
	if v, ok := w.known[cond.ID]; ok {
		return v
	}
	if w.spec > 0 {
		panic(&specAbort{})
	}
	if w.initDepth > 0 {
		w.unsupported("symbolic branch during package initialisation")
	}
	if w.replaying() {
		d := w.prefix[w.pos]
		w.pos++
		if d.Kind != 'b' {
			panic(fmt.Sprintf("sx: replay divergence: expected branch, have %c", d.Kind))
		}
		w.record(d)
		if !d.Forced {
			if d.Taken {
				w.S.Assert(cond)
			} else {
				w.S.Assert(w.C.Not(cond))
			}
		}
		w.noteKnown(cond, d.Taken)
		return d.Taken
	}
	side := func(b bool) *smt.Term {
		if b {
			return cond
		}
		return w.C.Not(cond)
	}
	if branchTrace {
		fmt.Fprintf(os.Stderr, "[branch] %s\n", w.where())
	}
	if mv, ok := w.evalModel(cond); ok {
		// the current model already witnesses side mv; only the other needs a query
		r, m := w.S.CheckWith(side(!mv), w.nondetTerms())
		if r == smt.Unsat {
			w.record(Decision{Kind: 'b', Taken: mv, Forced: true})
			w.noteKnown(cond, mv)
			return mv
		}
		if r == smt.Unknown {
			w.unknownBranches++
		}
		sib := append(append([]Decision{}, w.trace...), Decision{Kind: 'b', Taken: !mv})
		w.pending = append(w.pending, Pending{Prefix: sib, Model: m})
		w.record(Decision{Kind: 'b', Taken: mv})
		w.S.Assert(side(mv))
		w.noteKnown(cond, mv)
		return mv
	}
	rT, mT := w.S.CheckWith(cond, w.nondetTerms())
	if rT == smt.Unsat {
		w.record(Decision{Kind: 'b', Taken: false, Forced: true})
		w.noteKnown(cond, false)
		return false
	}
	rF, mF := w.S.CheckWith(w.C.Not(cond), w.nondetTerms())
	if rF == smt.Unsat {
		w.record(Decision{Kind: 'b', Taken: true, Forced: true})
		w.noteKnown(cond, true)
		if rT == smt.Sat && mT != nil {
			w.setModel(mT)
		}
		return true
	}
	if rT == smt.Unknown || rF == smt.Unknown {
		w.unknownBranches++
	}
	sib := append(append([]Decision{}, w.trace...), Decision{Kind: 'b', Taken: false})
	w.pending = append(w.pending, Pending{Prefix: sib, Model: mF})
	w.record(Decision{Kind: 'b', Taken: true})
	w.S.Assert(cond)
	w.noteKnown(cond, true)
	w.setModel(mT)
	return true
}

// Assume adds a constraint; the path ends silently if it becomes infeasible.
func (w *W) Assume(c *smt.Term) {
	if c.IsTrue() {
		return
	}
	if c.IsFalse() {
		panic(&pathEnd{Status: "infeasible"})
	}
	w.S.Assert(c)
	if w.replaying() {
		d := w.prefix[w.pos]
		w.pos++
		if d.Kind != 'a' {
			panic("sx: replay divergence at assume")
		}
		w.record(d)
		return
	}
	if v, ok := w.evalModel(c); ok && v {
		w.record(Decision{Kind: 'a'})
		return
	}
	w.setModel(nil)
	r := w.S.Check()
	if r == smt.Unsat {
		panic(&pathEnd{Status: "infeasible"})
	}
	if r == smt.Sat {
		if m, err := w.S.Model(w.nondetTerms()); err == nil {
			w.setModel(m)
		}
	}
	w.record(Decision{Kind: 'a'})
}

// Concretize forks over the feasible values of t (at most H.MaxValues).
func (w *W) Concretize(t *smt.Term, what string) *smt.Term {
	if t.IsConst() {
		return t
	}
	if w.initDepth > 0 {
		w.unsupported("symbolic value during package initialisation")
	}
	if w.replaying() {
		d := w.prefix[w.pos]
		w.pos++
		if d.Kind != 'v' {
			panic("sx: replay divergence at concretize")
		}
		w.record(d)
		k := w.C.BV(d.Val, t.W)
		if !d.Forced {
			w.S.Assert(w.C.Eq(t, k))
		}
		return k
	}
	max := w.H.MaxValues
	if max == 0 {
		max = 64
	}
	var vals []*big.Int
	excl := w.C.True()
	for {
		r, m := w.S.CheckWith(excl, []*smt.Term{t})
		if r == smt.Unsat {
			break
		}
		if r == smt.Unknown {
			panic(&pathEnd{Status: "unknown", Msg: "solver could not enumerate values of " + what + w.where()})
		}
		v := m[smt.RefName(t)]
		if v == nil {
			panic(&pathEnd{Status: "unknown", Msg: "no model value for " + what})
		}
		vals = append(vals, v)
		if len(vals) > max {
			panic(&pathEnd{Status: "unwind", Msg: fmt.Sprintf("more than %d feasible values for %s%s", max, what, w.where())})
		}
		excl = w.C.And(excl, w.C.Not(w.C.Eq(t, w.C.BV(v, t.W))))
	}
	if len(vals) == 0 {
		panic(&pathEnd{Status: "infeasible"})
	}
	sort.Slice(vals, func(i, j int) bool { return vals[i].Cmp(vals[j]) < 0 })
	forced := len(vals) == 1
	for _, v := range vals[1:] {
		sib := append(append([]Decision{}, w.trace...), Decision{Kind: 'v', Val: v})
		w.pending = append(w.pending, Pending{Prefix: sib})
	}
	w.record(Decision{Kind: 'v', Val: vals[0], Forced: forced})
	k := w.C.BV(vals[0], t.W)
	if !forced {
		w.assertRaw(w.C.Eq(t, k))
	}
	return k
}

// Choose forks over the integers lo..hi (harness-level structural choice).
func (w *W) Choose(lo, hi int64) int64 {
	if lo > hi {
		panic(&pathEnd{Status: "infeasible"})
	}
	if w.replaying() {
		d := w.prefix[w.pos]
		w.pos++
		if d.Kind != 'v' {
			panic(fmt.Sprintf("sx: replay divergence at choose: pos %d of %d, have kind %c; prefix kinds %s%s", w.pos-1, len(w.prefix), d.Kind, kinds(w.prefix), w.where()))
		}
		w.record(d)
		return d.Val.Int64()
	}
	for v := lo + 1; v <= hi; v++ {
		sib := append(append([]Decision{}, w.trace...), Decision{Kind: 'v', Val: big.NewInt(v), Forced: true})
		w.pending = append(w.pending, Pending{Prefix: sib, Model: w.model})
	}
	w.record(Decision{Kind: 'v', Val: big.NewInt(lo), Forced: true})
	return lo
}

// ---- nondet ----------------------------------------------------------------

func (w *W) Fresh(tag string, width int) *smt.Term {
	name := fmt.Sprintf("%s#%d:%d", tag, len(w.nondets), width)
	t := w.C.Var(name, width)
	w.nondets = append(w.nondets, NondetRec{Name: name, Tag: tag, W: width, Term: t, Internal: w.internal > 0})
	return t
}

// freshOf builds an arbitrary value of type t (scalars, arrays, structs).
func (w *W) freshOf(tag string, t types.Type) Value {
	switch u := t.Underlying().(type) {
	case *types.Basic:
		if wd, _, ok := intWidth(u); ok {
			return w.Fresh(tag, wd)
		}
	case *types.Struct:
		s := StructV{F: make([]Value, u.NumFields())}
		for i := range s.F {
			s.F[i] = w.freshOf(tag+"."+u.Field(i).Name(), u.Field(i).Type())
		}
		return s
	case *types.Array:
		a := ArrayV{E: make([]Value, u.Len())}
		for i := range a.E {
			a.E[i] = w.freshOf(fmt.Sprintf("%s[%d]", tag, i), u.Elem())
		}
		return a
	}
	w.unsupported("nondet value of type " + t.String())
	return nil
}

// ---- assertions ------------------------------------------------------------

func (w *W) nondetTerms() []*smt.Term {
	var ts []*smt.Term
	for _, n := range w.nondets {
		if n.Term != nil {
			ts = append(ts, n.Term)
		}
	}
	return ts
}

func (w *W) modelStrings(m map[string]*big.Int) []string {
	var out []string
	for _, n := range w.nondets {
		if n.Internal {
			continue
		}
		if n.Term != nil {
			v := m[smt.RefName(n.Term)]
			if v == nil {
				v = new(big.Int)
			}
			out = append(out, v.String())
		} else {
			out = append(out, n.Choice.String())
		}
	}
	return out
}

func (w *W) Assert(c *smt.Term, label string) {
	if w.replaying() {
		// checked by the parent path under the same path condition
		w.Assume(c)
		return
	}
	rec := AssertRec{Label: label, Pos: strings.TrimPrefix(w.where(), " @ ")}
	switch {
	case c.IsTrue():
		rec.Status = "trivial"
	default:
		var r smt.Result
		var m map[string]*big.Int
		if v, ok := w.evalModel(c); ok && !v {
			r, m = smt.Sat, w.model
		} else {
			r, m = w.S.CheckWith(w.C.Not(c), w.nondetTerms())
		}
		switch r {
		case smt.Unsat:
			rec.Status = "proved"
		case smt.Sat:
			rec.Status = "violated"
			rec.Model = w.modelStrings(m)
			for _, n := range w.nondets {
				if !n.Internal {
					rec.Tags = append(rec.Tags, n.Tag)
				}
			}
		default:
			rec.Status = "unknown"
		}
	}
	w.asserts = append(w.asserts, rec)
	w.Assume(c)
}

// ---- calls -------------------------------------------------------------

func (w *W) ensureInit(p *ssa.Package) {
	if p == nil || w.initDone[p] {
		return
	}
	w.initDone[p] = true
	if !w.E.initAllowed(p) {
		return
	}
	fn := p.Func("init")
	if fn == nil {
		return
	}
	w.initDepth++
	defer func() { w.initDepth-- }()
	if os.Getenv("GOSX_INITTRACE") != "" {
		t0 := time.Now()
		s0 := w.steps
		defer func() {
			if d := time.Since(t0); d > 200*time.Millisecond {
				fmt.Fprintf(os.Stderr, "[init] %s %.1fs %d steps\n", p.Pkg.Path(), d.Seconds(), w.steps-s0)
			}
		}()
	}
	func() {
		defer func() {
			if r := recover(); r != nil {
				if pe, ok := r.(*pathEnd); ok && pe.Status == "unsupported" {
					w.E.noteInitFailure(p, pe.Msg)
					w.poisonUnwritten(p, pe.Msg)
					return
				}
				if gp, ok := r.(*goPanic); ok {
					w.E.noteInitFailure(p, "panic: "+gp.Msg)
					w.poisonUnwritten(p, gp.Msg)
					return
				}
				panic(r)
			}
		}()
		if w.runningInit == nil {
			w.runningInit = map[*ssa.Function]bool{}
		}
		w.runningInit[fn] = true
		defer delete(w.runningInit, fn)
		w.callFunc(fn, nil, nil)
	}()
}

func (w *W) poisonUnwritten(p *ssa.Package, why string) {
	for _, m := range p.Members {
		if g, ok := m.(*ssa.Global); ok {
			if _, ok := w.globals[g]; !ok {
				c := w.newCell(g.Type().(*types.Pointer).Elem())
				c.Poison = g.String() + " (package init failed: " + why + ")"
				w.globals[g] = c
			}
		}
	}
}

func (w *W) globalCell(g *ssa.Global) *Cell {
	if c, ok := w.globals[g]; ok {
		return c
	}
	if g.Pkg != nil && w.initDepth == 0 {
		w.ensureInit(g.Pkg)
		if c, ok := w.globals[g]; ok {
			return c
		}
	}
	w.initDepth++ // cells of globals are always "frozen"
	c := w.newCell(g.Type().(*types.Pointer).Elem())
	w.initDepth--
	if g.Pkg != nil && !w.E.initAllowed(g.Pkg) && !w.E.zeroOKGlobal(g) {
		c.Poison = g.String() + " (package initialiser not executed)"
	} else if g.Pkg != nil && !w.E.zeroOKGlobal(g) {
		// the initialiser ran but was cut short: a global it had not reached yet
		// must not be read as its zero value
		if why, failed := w.E.InitFailures()[g.Pkg.Pkg.Path()]; failed {
			c.Poison = g.String() + " (package init failed: " + why + ")"
		}
	}
	w.globals[g] = c
	return c
}

func (w *W) get(fr *frame, v ssa.Value) Value {
	switch x := v.(type) {
	case *ssa.Const:
		return w.constVal(x)
	case *ssa.Global:
		return PtrV{C: w.globalCell(x)}
	case *ssa.Function:
		return FuncV{Fn: x}
	case *ssa.Builtin:
		return FuncV{Name: "builtin:" + x.Name()}
	}
	i, ok := fr.idx[v]
	var r Value
	if ok {
		r = fr.env[i]
		ok = r != nil
	}
	if !ok {
		panic(fmt.Sprintf("sx: no value for %s (%T) in %s", v.Name(), v, fr.fn))
	}
	return r
}

func (w *W) constVal(c *ssa.Const) Value {
	t := c.Type()
	if c.Value == nil {
		return w.zero(t)
	}
	switch u := t.Underlying().(type) {
	case *types.Basic:
		if wd, _, ok := intWidth(u); ok {
			if wd == 0 {
				return w.C.Bool(constant.BoolVal(c.Value))
			}
			bi, ok := constant.Val(constant.ToInt(c.Value)).(*big.Int)
			if !ok {
				i64, _ := constant.Int64Val(constant.ToInt(c.Value))
				bi = big.NewInt(i64)
				if u64, exact := constant.Uint64Val(constant.ToInt(c.Value)); exact && i64 < 0 && c.Value.Kind() == constant.Int && constant.Sign(c.Value) > 0 {
					bi = new(big.Int).SetUint64(u64)
				}
			}
			return w.C.BV(bi, wd)
		}
		if u.Info()&types.IsString != 0 {
			return w.strConst(constant.StringVal(c.Value))
		}
		if u.Info()&types.IsFloat != 0 {
			f, _ := constant.Float64Val(c.Value)
			return FloatV{F: f}
		}
	}
	w.unsupported("constant of type " + t.String())
	return nil
}

// callFunc runs fn (intrinsic rule or SSA body).
func (w *W) callFunc(fn *ssa.Function, bind []Value, args []Value) Value {
	name := fn.String()
	if fn.Synthetic == "package initializer" && !w.runningInit[fn] {
		w.ensureInit(fn.Pkg)
		return TupleV{}
	}
	if r, ok := w.E.lookupRule(w.H, fn, name); ok {
		w.stubsHit[name]++
		return r(w, fn, args)
	}
	if fn.Pkg != nil && !w.initDone[fn.Pkg] {
		w.ensureInit(fn.Pkg)
	}
	if fn.Blocks == nil {
		w.unsupported("call to function without body: " + name)
	}
	if w.depth > 400 {
		w.unsupported("call depth > 400 in " + name)
	}
	if w.funcsHit != nil && w.initDepth == 0 {
		w.funcsHit[fn] = true
	}
	info := w.E.funcInfo(fn)
	fr := &frame{fn: fn, env: make([]Value, info.n), idx: info.idx, caller: w.top}
	if len(args) != len(fn.Params) {
		panic(fmt.Sprintf("sx: %s called with %d args, wants %d", name, len(args), len(fn.Params)))
	}
	for i, p := range fn.Params {
		fr.set(p, args[i])
	}
	for i, fv := range fn.FreeVars {
		fr.set(fv, bind[i])
	}
	saved := w.top
	savedPos := w.curPos
	w.top = fr
	w.depth++
	defer func() { w.top = saved; w.depth--; w.curPos = savedPos }()
	return w.runFrame(fr)
}

func (w *W) runFrame(fr *frame) (ret Value) {
	defer func() {
		if r := recover(); r != nil {
			gp, ok := r.(*goPanic)
			if !ok {
				panic(r)
			}
			fr.panic = gp
			w.runDefers(fr)
			if fr.panic != nil {
				panic(fr.panic)
			}
			if fr.fn.Recover != nil {
				ret = w.execFrom(fr, fr.fn.Recover)
			} else {
				ret = w.zeroResults(fr.fn)
			}
		}
	}()
	return w.execFrom(fr, fr.fn.Blocks[0])
}

func (w *W) zeroResults(fn *ssa.Function) Value {
	res := fn.Signature.Results()
	switch res.Len() {
	case 0:
		return TupleV{}
	case 1:
		return w.zero(res.At(0).Type())
	}
	return w.zero(res)
}

func (w *W) runDefers(fr *frame) {
	for len(fr.defers) > 0 {
		d := fr.defers[len(fr.defers)-1]
		fr.defers = fr.defers[:len(fr.defers)-1]
		w.invoke(fr, d.fn, d.args, d.call)
	}
}

// invoke calls a function value.
func (w *W) invoke(fr *frame, f Value, args []Value, call *ssa.CallCommon) Value {
	fv, ok := f.(FuncV)
	if !ok {
		panic(fmt.Sprintf("sx: invoke of %T", f))
	}
	if strings.HasPrefix(fv.Name, "builtin:") {
		return w.builtin(fr, fv.Name[8:], args, call)
	}
	if fv.Nat != nil {
		return fv.Nat(w, args)
	}
	if fv.Fn == nil {
		w.goPanicStr("runtime error: invalid memory address or nil pointer dereference (nil func call)")
	}
	return w.callFunc(fv.Fn, fv.Bind, args)
}

func (w *W) doCall(fr *frame, c *ssa.CallCommon) (Value, []Value) {
	args := make([]Value, 0, len(c.Args)+1)
	if c.IsInvoke() {
		recv := w.get(fr, c.Value)
		iv, ok := recv.(IfaceV)
		if !ok {
			panic(fmt.Sprintf("sx: invoke on %T", recv))
		}
		if iv.T == nil {
			w.goPanicStr("runtime error: invalid memory address or nil pointer dereference (nil interface method call " + c.Method.Name() + ")")
		}
		fn := w.E.lookupMethod(iv.T, c.Method)
		if fn == nil {
			w.unsupported("no method " + c.Method.Name() + " on " + iv.T.String())
		}
		args = append(args, iv.V)
		for _, a := range c.Args {
			args = append(args, w.get(fr, a))
		}
		return FuncV{Fn: fn}, args
	}
	for _, a := range c.Args {
		args = append(args, w.get(fr, a))
	}
	return w.get(fr, c.Value), args
}

func (w *W) execFrom(fr *frame, b *ssa.BasicBlock) Value {
	var prev *ssa.BasicBlock
	for {
		next, ret, done := w.execBlock(fr, b, prev)
		if done {
			return ret
		}
		prev, b = b, next
	}
}

func (w *W) execBlock(fr *frame, b, prev *ssa.BasicBlock) (next *ssa.BasicBlock, ret Value, done bool) {
	// phis first (parallel assignment)
	nphi := 0
	var phiVals []Value
	skipPhi := fr.phiDone == b
	fr.phiDone = nil
	for _, ins := range b.Instrs {
		phi, ok := ins.(*ssa.Phi)
		if !ok {
			break
		}
		if skipPhi {
			nphi++
			continue
		}
		idx := -1
		for i, p := range b.Preds {
			if p == prev {
				idx = i
				break
			}
		}
		if idx < 0 {
			panic("sx: phi without matching predecessor")
		}
		phiVals = append(phiVals, w.get(fr, phi.Edges[idx]))
		nphi++
	}
	for i := 0; i < nphi && !skipPhi; i++ {
		fr.set(b.Instrs[i].(*ssa.Phi), phiVals[i])
	}
	for _, ins := range b.Instrs[nphi:] {
		w.steps++
		if w.steps > w.H.maxSteps() {
			panic(&pathEnd{Status: "steps", Msg: fmt.Sprintf("step limit %d exceeded in %s", w.H.maxSteps(), fr.fn)})
		}
		if p := ins.Pos(); p.IsValid() {
			w.curPos = p
		}
		switch x := ins.(type) {
		case *ssa.If:
			c := w.termOf(w.get(fr, x.Cond))
			if !c.IsConst() {
				if fr.symIter == nil {
					fr.symIter = map[ssa.Instruction]int{}
				}
				fr.symIter[x]++
				if fr.symIter[x] > w.H.unwind() {
					panic(&pathEnd{Status: "unwind", Msg: fmt.Sprintf("unwinding assertion: symbolic branch taken more than %d times in one activation of %s%s", w.H.unwind(), fr.fn, w.where())})
				}
			}
			if !c.IsConst() && w.spec == 0 {
				if _, decided := w.known[c.ID]; !decided {
					if j := w.ifConvert(fr, b, c); j != nil {
						return j, nil, false
					}
				}
			}
			if w.Branch(c) {
				return b.Succs[0], nil, false
			}
			return b.Succs[1], nil, false
		case *ssa.Jump:
			return b.Succs[0], nil, false
		case *ssa.Return:
			var r Value
			switch len(x.Results) {
			case 0:
				r = TupleV{}
			case 1:
				r = w.get(fr, x.Results[0])
			default:
				tv := make(TupleV, len(x.Results))
				for i, rv := range x.Results {
					tv[i] = w.get(fr, rv)
				}
				r = tv
			}
			return nil, r, true
		case *ssa.Panic:
			v := w.get(fr, x.X)
			panic(&goPanic{V: v, Msg: w.describePanic(v), Pos: w.where()})
		case *ssa.RunDefers:
			w.runDefers(fr)
		case *ssa.Defer:
			f, args := w.doCall(fr, &x.Call)
			fr.defers = append(fr.defers, deferred{fn: f, args: args, call: &x.Call})
		case *ssa.Go:
			w.unsupported("go statement")
		case *ssa.Send:
			w.unsupported("channel send")
		case *ssa.Select:
			w.unsupported("select")
		case *ssa.Store:
			p := w.get(fr, x.Addr).(PtrV)
			w.storePtr(p, w.get(fr, x.Val))
		case *ssa.MapUpdate:
			m := w.get(fr, x.Map).(MapV)
			w.mapSet(m.M, w.get(fr, x.Key), w.get(fr, x.Value))
		case *ssa.DebugRef:
		case ssa.Value:
			fr.set(x, w.evalValue(fr, x))
		default:
			w.unsupported(fmt.Sprintf("instruction %T", ins))
		}
	}
	panic("sx: block without terminator")
}

func (w *W) describePanic(v Value) string {
	if iv, ok := v.(IfaceV); ok {
		if s, ok := iv.V.(StrV); ok {
			if cs, ok := concreteStr(s); ok {
				return cs
			}
			return "<symbolic string>"
		}
		if iv.T != nil {
			// error values: try Error()
			if p, ok := iv.V.(PtrV); ok && p.C != nil && len(p.C.Kids) > 0 {
				if s, ok := p.C.Kids[0].V.(StrV); ok {
					if cs, ok := concreteStr(s); ok {
						return iv.T.String() + ": " + cs
					}
				}
			}
			return "value of type " + iv.T.String()
		}
	}
	return fmt.Sprintf("%T", v)
}

func (w *W) evalValue(fr *frame, v ssa.Value) Value {
	switch x := v.(type) {
	case *ssa.Alloc:
		return PtrV{C: w.newCell(x.Type().(*types.Pointer).Elem())}
	case *ssa.BinOp:
		return w.binop(x.Op, w.get(fr, x.X), w.get(fr, x.Y), x.X.Type(), x.Y.Type())
	case *ssa.UnOp:
		return w.unop(fr, x)
	case *ssa.Call:
		f, args := w.doCall(fr, &x.Call)
		r := w.invoke(fr, f, args, &x.Call)
		return r
	case *ssa.ChangeType:
		return w.get(fr, x.X)
	case *ssa.ChangeInterface:
		return w.get(fr, x.X)
	case *ssa.Convert:
		return w.convert(w.get(fr, x.X), x.X.Type(), x.Type())
	case *ssa.MakeInterface:
		return IfaceV{T: x.X.Type(), V: w.get(fr, x.X)}
	case *ssa.MakeClosure:
		fn := x.Fn.(*ssa.Function)
		bind := make([]Value, len(x.Bindings))
		for i, b := range x.Bindings {
			bind[i] = w.get(fr, b)
		}
		return FuncV{Fn: fn, Bind: bind}
	case *ssa.MakeMap:
		mt := x.Type().Underlying().(*types.Map)
		return MapV{M: &MapObj{KT: mt.Key(), VT: mt.Elem(), Frozen: w.initDepth > 0}}
	case *ssa.MakeSlice:
		return w.makeSlice(fr, x)
	case *ssa.MakeChan:
		w.unsupported("make(chan)")
	case *ssa.FieldAddr:
		p := w.get(fr, x.X).(PtrV)
		if p.Alts != nil {
			alts := make([]PtrAlt, len(p.Alts))
			for i, a := range p.Alts {
				alts[i] = PtrAlt{G: a.G, C: a.C.Kids[x.Field]}
			}
			return PtrV{Alts: alts}
		}
		if p.C == nil {
			w.goPanicStr("runtime error: invalid memory address or nil pointer dereference")
		}
		return PtrV{C: p.C.Kids[x.Field]}
	case *ssa.Field:
		return w.get(fr, x.X).(StructV).F[x.Field]
	case *ssa.IndexAddr:
		return w.indexAddr(fr, x)
	case *ssa.Index:
		return w.index(fr, x)
	case *ssa.Lookup:
		return w.lookup(fr, x)
	case *ssa.Slice:
		return w.sliceOp(fr, x)
	case *ssa.SliceToArrayPointer:
		s := w.get(fr, x.X).(SliceV)
		n := int(x.Type().(*types.Pointer).Elem().Underlying().(*types.Array).Len())
		if s.Len < n {
			w.goPanicStr(fmt.Sprintf("runtime error: cannot convert slice with length %d to array or pointer to array with length %d", s.Len, n))
		}
		if s.Nil && n == 0 {
			return PtrV{}
		}
		if n == 0 {
			return PtrV{C: w.newArrayCell(x.Type().(*types.Pointer).Elem().Underlying().(*types.Array).Elem(), 0)}
		}
		if s.Off == 0 && len(s.Arr.Kids) == n {
			return PtrV{C: s.Arr}
		}
		view := &Cell{T: x.Type().(*types.Pointer).Elem(), Agg: true, Kids: s.Arr.Kids[s.Off : s.Off+n]}
		return PtrV{C: view}
	case *ssa.Extract:
		return w.get(fr, x.Tuple).(TupleV)[x.Index]
	case *ssa.TypeAssert:
		return w.typeAssert(fr, x)
	case *ssa.Range:
		return w.rangeInit(fr, x)
	case *ssa.Next:
		return w.rangeNext(fr, x)
	case *ssa.Phi:
		panic("sx: phi in body")
	case *ssa.MultiConvert:
		w.unsupported("MultiConvert")
	}
	w.unsupported(fmt.Sprintf("value instruction %T", v))
	return nil
}

// ---- ranges ----------------------------------------------------------------

type rangeIter struct {
	keys, vals []Value
	str        *StrV
	pos        int
}

func (w *W) rangeInit(fr *frame, x *ssa.Range) Value {
	v := w.get(fr, x.X)
	switch m := v.(type) {
	case MapV:
		it := &rangeIter{}
		if m.M != nil {
			it.keys = append(it.keys, m.M.Keys...)
			it.vals = append(it.vals, m.M.Vals...)
			if w.H != nil && w.H.MapOrderAny && len(it.keys) > 1 && len(it.keys) <= 3 && w.initDepth == 0 {
				// fork over permutations: choose a rotation/swap index
				perms := permutations(len(it.keys))
				k := w.Choose(0, int64(len(perms)-1))
				p := perms[k]
				nk := make([]Value, len(p))
				nv := make([]Value, len(p))
				for i, j := range p {
					nk[i], nv[i] = it.keys[j], it.vals[j]
				}
				it.keys, it.vals = nk, nv
			}
		}
		return IfaceV{T: nil, V: it}
	case StrV:
		return IfaceV{T: nil, V: &rangeIter{str: &m}}
	}
	w.unsupported(fmt.Sprintf("range over %T", v))
	return nil
}

func permutations(n int) [][]int {
	if n == 1 {
		return [][]int{{0}}
	}
	var out [][]int
	for _, p := range permutations(n - 1) {
		for i := 0; i <= len(p); i++ {
			q := append(append(append([]int{}, p[:i]...), n-1), p[i:]...)
			out = append(out, q)
		}
	}
	return out
}

func (w *W) rangeNext(fr *frame, x *ssa.Next) Value {
	it := w.get(fr, x.Iter).(IfaceV).V.(*rangeIter)
	tt := x.Type().(*types.Tuple)
	if it.str != nil {
		s := it.str.B
		if it.pos >= len(s) {
			return TupleV{w.C.False(), w.bvInt(0), w.C.BVu(0, 32)}
		}
		start := it.pos
		r, size := w.decodeRune(s[it.pos:])
		it.pos += size
		return TupleV{w.C.True(), w.bvInt(int64(start)), r}
	}
	if it.pos >= len(it.keys) {
		return TupleV{w.C.False(), w.zeroOrNil(tt.At(1).Type()), w.zeroOrNil(tt.At(2).Type())}
	}
	k, v := it.keys[it.pos], it.vals[it.pos]
	it.pos++
	return TupleV{w.C.True(), k, v}
}

func (w *W) zeroOrNil(t types.Type) Value {
	if b, ok := t.(*types.Basic); ok && b.Kind() == types.Invalid {
		return nil
	}
	return w.zero(t)
}

// decodeRune decodes one UTF-8 sequence from symbolic bytes, forking on the
// lead byte class. Returns the rune (32-bit term) and the byte count.
func (w *W) decodeRune(b []*smt.Term) (*smt.Term, int) {
	c := w.C
	b0 := b[0]
	if w.Branch(c.Ult(b0, c.BVu(0x80, 8))) {
		return c.ZExt(b0, 24), 1
	}
	bad := c.BVu(0xFFFD, 32)
	cont := func(x *smt.Term) *smt.Term {
		return c.Eq(c.BAnd(x, c.BVu(0xC0, 8)), c.BVu(0x80, 8))
	}
	low6 := func(x *smt.Term) *smt.Term { return c.ZExt(c.Extract(x, 5, 0), 26) }
	// two-byte
	if w.Branch(c.And(c.Uge(b0, c.BVu(0xC2, 8)), c.Ule(b0, c.BVu(0xDF, 8)))) {
		if len(b) >= 2 && w.Branch(cont(b[1])) {
			r := c.BOr(c.Shl(c.ZExt(c.Extract(b0, 4, 0), 27), c.BVu(6, 32)), low6(b[1]))
			return r, 2
		}
		return bad, 1
	}
	if w.Branch(c.And(c.Uge(b0, c.BVu(0xE0, 8)), c.Ule(b0, c.BVu(0xEF, 8)))) {
		if len(b) >= 3 && w.Branch(c.And(cont(b[1]), cont(b[2]))) {
			r := c.BOr(c.BOr(c.Shl(c.ZExt(c.Extract(b0, 3, 0), 28), c.BVu(12, 32)), c.Shl(low6(b[1]), c.BVu(6, 32))), low6(b[2]))
			// overlong (< 0x800) and surrogates are invalid
			ok := c.And(c.Uge(r, c.BVu(0x800, 32)), c.Or(c.Ult(r, c.BVu(0xD800, 32)), c.Ugt(r, c.BVu(0xDFFF, 32))))
			if w.Branch(ok) {
				return r, 3
			}
		}
		return bad, 1
	}
	if w.Branch(c.And(c.Uge(b0, c.BVu(0xF0, 8)), c.Ule(b0, c.BVu(0xF4, 8)))) {
		if len(b) >= 4 && w.Branch(c.AndN(cont(b[1]), cont(b[2]), cont(b[3]))) {
			r := c.BOr(c.BOr(c.BOr(c.Shl(c.ZExt(c.Extract(b0, 2, 0), 29), c.BVu(18, 32)), c.Shl(low6(b[1]), c.BVu(12, 32))), c.Shl(low6(b[2]), c.BVu(6, 32))), low6(b[3]))
			ok := c.And(c.Uge(r, c.BVu(0x10000, 32)), c.Ule(r, c.BVu(0x10FFFF, 32)))
			if w.Branch(ok) {
				return r, 4
			}
		}
		return bad, 1
	}
	return bad, 1
}

// ---- type assertions -------------------------------------------------------

func (w *W) typeAssert(fr *frame, x *ssa.TypeAssert) Value {
	iv := w.get(fr, x.X).(IfaceV)
	ok := false
	var res Value
	if _, isIface := x.AssertedType.Underlying().(*types.Interface); isIface {
		if iv.T != nil && types.Implements(iv.T, x.AssertedType.Underlying().(*types.Interface)) {
			ok = true
			res = iv
		} else {
			res = IfaceV{}
		}
	} else {
		if iv.T != nil && types.Identical(iv.T, x.AssertedType) {
			ok = true
			res = iv.V
		} else {
			res = w.zero(x.AssertedType)
		}
	}
	if x.CommaOk {
		return TupleV{res, w.C.Bool(ok)}
	}
	if !ok {
		have := "nil"
		if iv.T != nil {
			have = iv.T.String()
		}
		w.goPanicStr("interface conversion: interface is " + have + ", not " + x.AssertedType.String())
	}
	return res
}

// ---- if-conversion -----------------------------------------------------------

// pureInstr reports whether ins can be executed speculatively: it has no side
// effect on memory and allocates nothing observable. (Panics and forks inside
// it abort the speculation at run time.)
func pureInstr(ins ssa.Instruction) bool {
	switch x := ins.(type) {
	case *ssa.BinOp, *ssa.Convert, *ssa.ChangeType, *ssa.Field, *ssa.Extract, *ssa.DebugRef,
		*ssa.FieldAddr, *ssa.IndexAddr, *ssa.Index, *ssa.MakeInterface, *ssa.ChangeInterface, *ssa.Phi:
		return true
	case *ssa.UnOp:
		return x.Op != token.ARROW
	case *ssa.TypeAssert:
		return x.CommaOk
	case *ssa.Lookup:
		_, isMap := x.X.Type().Underlying().(*types.Map)
		return !isMap
	case *ssa.Call:
		if b, ok := x.Call.Value.(*ssa.Builtin); ok {
			return b.Name() == "len" || b.Name() == "cap"
		}
		if f, ok := x.Call.Value.(*ssa.Function); ok {
			switch f.Name() {
			case "vpMul128", "vpAdd128", "vpDivMod128":
				return true
			}
		}
	}
	return false
}

// sideBlock checks that blk is a pure straight-line block between the branch
// block a and a join: single predecessor a, single successor, pure body.
func sideBlock(a, blk *ssa.BasicBlock) *ssa.BasicBlock {
	if len(blk.Preds) != 1 || blk.Preds[0] != a || len(blk.Succs) != 1 || len(blk.Instrs) > 24 {
		return nil
	}
	for _, ins := range blk.Instrs[:len(blk.Instrs)-1] {
		if !pureInstr(ins) {
			return nil
		}
	}
	if _, ok := blk.Instrs[len(blk.Instrs)-1].(*ssa.Jump); !ok {
		return nil
	}
	return blk.Succs[0]
}

// ifConvert handles `if c` whose arms are pure (short-circuit && / ||,
// conditional increments, min/max idioms): both arms are evaluated and the
// join block's phis become ite terms, so the path does not fork. It returns
// the join block, or nil if the shape does not apply.
func (w *W) ifConvert(fr *frame, a *ssa.BasicBlock, c *smt.Term) (join *ssa.BasicBlock) {
	t, f := a.Succs[0], a.Succs[1]
	var tSide, fSide *ssa.BasicBlock // side blocks (nil = edge goes directly to the join)
	jt, jf := sideBlock(a, t), sideBlock(a, f)
	switch {
	case jt != nil && jt == f: // triangle: a -> t -> f, a -> f
		tSide, join = t, f
	case jf != nil && jf == t: // triangle: a -> f -> t, a -> t
		fSide, join = f, t
	case jt != nil && jt == jf: // diamond
		tSide, fSide, join = t, f, jt
	default:
		return nil
	}
	if join == a || len(join.Preds) != 2 {
		return nil
	}
	ok := true
	var phiVals []Value
	func() {
		w.spec++
		savedSteps := w.steps
		defer func() {
			w.spec--
			if r := recover(); r != nil {
				switch r.(type) {
				case *specAbort, *goPanic, *pathEnd:
					ok = false
					w.steps = savedSteps
				default:
					panic(r)
				}
			}
		}()
		run := func(blk *ssa.BasicBlock) {
			if blk == nil {
				return
			}
			for _, ins := range blk.Instrs[:len(blk.Instrs)-1] {
				if v, isVal := ins.(ssa.Value); isVal {
					if phi, isPhi := ins.(*ssa.Phi); isPhi {
						fr.set(phi, w.get(fr, phi.Edges[0]))
						continue
					}
					fr.set(v, w.evalValue(fr, v))
				}
			}
		}
		run(tSide)
		run(fSide)
		predOf := func(side *ssa.BasicBlock) *ssa.BasicBlock {
			if side != nil {
				return side
			}
			return a
		}
		pt, pf := predOf(tSide), predOf(fSide)
		it, iff := -1, -1
		for i, p := range join.Preds {
			if p == pt && it < 0 {
				it = i
			} else if p == pf {
				iff = i
			}
		}
		if it < 0 || iff < 0 {
			ok = false
			return
		}
		for _, ins := range join.Instrs {
			phi, isPhi := ins.(*ssa.Phi)
			if !isPhi {
				break
			}
			vt, vf := w.get(fr, phi.Edges[it]), w.get(fr, phi.Edges[iff])
			phiVals = append(phiVals, w.mergeIte(c, vt, vf))
		}
	}()
	if !ok {
		return nil
	}
	i := 0
	for _, ins := range join.Instrs {
		phi, isPhi := ins.(*ssa.Phi)
		if !isPhi {
			break
		}
		fr.set(phi, phiVals[i])
		i++
	}
	fr.phiDone = join
	w.IfConversions++
	return join
}

func kinds(ds []Decision) string {
	b := make([]byte, len(ds))
	for i, d := range ds {
		b[i] = d.Kind
		if d.Forced && d.Kind == 'b' {
			b[i] = 'B'
		}
	}
	return string(b)
}

// ---- static value numbering ----------------------------------------------------

type fnInfo struct {
	idx map[ssa.Value]int
	n   int
}

func (e *Engine) funcInfo(fn *ssa.Function) *fnInfo {
	if v, ok := e.fnInfos.Load(fn); ok {
		return v.(*fnInfo)
	}
	info := &fnInfo{idx: map[ssa.Value]int{}}
	add := func(v ssa.Value) {
		if _, ok := info.idx[v]; !ok {
			info.idx[v] = info.n
			info.n++
		}
	}
	for _, p := range fn.Params {
		add(p)
	}
	for _, fv := range fn.FreeVars {
		add(fv)
	}
	for _, b := range fn.Blocks {
		for _, ins := range b.Instrs {
			if v, ok := ins.(ssa.Value); ok {
				add(v)
			}
		}
	}
	if fn.Recover != nil {
		for _, ins := range fn.Recover.Instrs {
			if v, ok := ins.(ssa.Value); ok {
				add(v)
			}
		}
	}
	e.fnInfos.Store(fn, info)
	return info
}

// nilValue marks "assigned the untyped nil Value" (a Range/Next key of an
// ignored variable) so that it is distinguishable from "never assigned".
type nilValue struct{}

func (fr *frame) set(v ssa.Value, val Value) {
	if val == nil {
		val = nilValue{}
	}
	fr.env[fr.idx[v]] = val
}
