package sx

import (
	"fmt"
	"go/types"
	"math/big"
	"strings"

	"gosx/smt"

	"golang.org/x/tools/go/ssa"
)

// pkgRules apply to every function of a package (unless a more specific rule exists).
var pkgRules = map[string]Rule{
	"github.com/skycoin/skycoin/src/util/logging": ruleLogger,
	"github.com/sirupsen/logrus":                  ruleLogger,
	"log":                                         ruleLogger,
}

func init() { pkgRules["math/big"] = ruleBig }

func (w *W) resultZero(fn *ssa.Function) Value {
	return w.zeroResults(fn)
}

func ruleNoop(w *W, fn *ssa.Function, args []Value) Value { return w.resultZero(fn) }

// ruleHavoc returns arbitrary values of the result types. Error results are
// either nil or an opaque error.
func ruleHavoc(w *W, fn *ssa.Function, args []Value) Value {
	res := fn.Signature.Results()
	vals := make(TupleV, res.Len())
	w.internal++
	defer func() { w.internal-- }()
	for i := 0; i < res.Len(); i++ {
		vals[i] = w.havocType("havoc:"+fn.Name(), res.At(i).Type())
	}
	switch len(vals) {
	case 0:
		return TupleV{}
	case 1:
		return vals[0]
	}
	return vals
}

func isErrorType(t types.Type) bool {
	return types.Identical(t, types.Universe.Lookup("error").Type())
}

func (w *W) havocType(tag string, t types.Type) Value {
	if isErrorType(t) {
		if w.Branch(w.Fresh(tag+".err", 0)) {
			return w.opaqueError("<havoc error from " + tag + ">")
		}
		return IfaceV{}
	}
	if isByteSlice(t) {
		// arbitrary short byte slice (length 0..2) or nil
		n := w.Choose(-1, 2)
		if n < 0 {
			return SliceV{Nil: true}
		}
		bs := make([]*smt.Term, n)
		for i := range bs {
			bs[i] = w.Fresh(fmt.Sprintf("%s[%d]", tag, i), 8)
		}
		return w.makeByteSlice(bs)
	}
	return w.freshOf(tag, t)
}

// opaqueError builds an *errors.errorString with the given text.
func (w *W) opaqueError(msg string) Value {
	ep := w.E.Pkgs["errors"]
	if ep == nil {
		w.unsupported("package errors not loaded")
	}
	t := ep.Type("errorString")
	if t == nil {
		w.unsupported("errors.errorString not found")
	}
	c := w.newCell(t.Type())
	c.Kids[0].V = w.strConst(msg)
	return IfaceV{T: types.NewPointer(t.Type()), V: PtrV{C: c}}
}

func ruleLogger(w *W, fn *ssa.Function, args []Value) Value {
	n := fn.Name()
	if strings.HasPrefix(n, "Panic") || strings.HasPrefix(n, "Fatal") || strings.HasPrefix(n, "Critical") && false {
		w.goPanicStr("logger." + n + " called")
	}
	res := fn.Signature.Results()
	if res.Len() == 0 {
		return TupleV{}
	}
	vals := make(TupleV, res.Len())
	for i := range vals {
		rt := res.At(i).Type()
		switch u := rt.Underlying().(type) {
		case *types.Pointer:
			cell := w.newCell(u.Elem())
			// logger wrappers embed a logger interface: give it a non-nil dummy
			if st, ok := u.Elem().Underlying().(*types.Struct); ok {
				if lp := w.E.Pkgs["github.com/sirupsen/logrus"]; lp != nil && lp.Type("Entry") != nil {
					et := types.NewPointer(lp.Type("Entry").Type())
					for fi := 0; fi < st.NumFields(); fi++ {
						if it, ok := st.Field(fi).Type().Underlying().(*types.Interface); ok && types.Implements(et, it) {
							cell.Kids[fi].V = IfaceV{T: et, V: PtrV{C: w.newCell(lp.Type("Entry").Type())}}
						}
					}
				}
			}
			vals[i] = PtrV{C: cell}
		case *types.Interface:
			// a logger-ish interface: hand back a non-nil dummy *logrus.Entry if available
			if lp := w.E.Pkgs["github.com/sirupsen/logrus"]; lp != nil && lp.Type("Entry") != nil {
				et := lp.Type("Entry").Type()
				vals[i] = IfaceV{T: types.NewPointer(et), V: PtrV{C: w.newCell(et)}}
			} else {
				vals[i] = w.zero(rt)
			}
		default:
			vals[i] = w.zero(rt)
		}
	}
	if len(vals) == 1 {
		return vals[0]
	}
	return vals
}

func registerIntrinsics(e *Engine) {
	registerStd(e)
	registerStd2(e)
	registerCrypto(e)
}

// vpRule handles the harness runtime (functions named vp* in the harness package).
func vpRule(name string) Rule {
	switch name {
	case "vpU8":
		return func(w *W, fn *ssa.Function, a []Value) Value { return w.Fresh(w.mustStr(a[0], "tag"), 8) }
	case "vpU16":
		return func(w *W, fn *ssa.Function, a []Value) Value { return w.Fresh(w.mustStr(a[0], "tag"), 16) }
	case "vpU32":
		return func(w *W, fn *ssa.Function, a []Value) Value { return w.Fresh(w.mustStr(a[0], "tag"), 32) }
	case "vpU64", "vpI64", "vpInt":
		return func(w *W, fn *ssa.Function, a []Value) Value { return w.Fresh(w.mustStr(a[0], "tag"), 64) }
	case "vpBool":
		return func(w *W, fn *ssa.Function, a []Value) Value { return w.Fresh(w.mustStr(a[0], "tag"), 0) }
	case "vpBytes":
		return func(w *W, fn *ssa.Function, a []Value) Value {
			tag := w.mustStr(a[0], "tag")
			n := w.concInt(w.termOf(a[1]), true, "vpBytes length")
			bs := make([]*smt.Term, n)
			for i := range bs {
				bs[i] = w.Fresh(fmt.Sprintf("%s[%d]", tag, i), 8)
			}
			return w.makeByteSlice(bs)
		}
	case "vpStr":
		return func(w *W, fn *ssa.Function, a []Value) Value {
			tag := w.mustStr(a[0], "tag")
			n := w.concInt(w.termOf(a[1]), true, "vpStr length")
			bs := make([]*smt.Term, n)
			for i := range bs {
				bs[i] = w.Fresh(fmt.Sprintf("%s[%d]", tag, i), 8)
			}
			return StrV{B: bs}
		}
	case "vpLen":
		return func(w *W, fn *ssa.Function, a []Value) Value {
			tag := w.mustStr(a[0], "tag")
			lo := w.termOf(a[1]).Int64()
			hi := w.termOf(a[2]).Int64()
			v := w.Choose(lo, hi)
			w.nondets = append(w.nondets, NondetRec{Name: tag, Tag: tag, Choice: big.NewInt(v)})
			return w.bvInt(v)
		}
	case "vpFill":
		return func(w *W, fn *ssa.Function, a []Value) Value {
			tag := w.mustStr(a[0], "tag")
			iv := a[1].(IfaceV)
			pt, ok := iv.T.Underlying().(*types.Pointer)
			if !ok {
				w.unsupported("vpFill needs a pointer")
			}
			w.storePtr(iv.V.(PtrV), w.freshOf(tag, pt.Elem()))
			return TupleV{}
		}
	case "vpAssume":
		return func(w *W, fn *ssa.Function, a []Value) Value {
			w.Assume(w.termOf(a[0]))
			return TupleV{}
		}
	case "vpAssert":
		return func(w *W, fn *ssa.Function, a []Value) Value {
			w.Assert(w.termOf(a[0]), w.mustStr(a[1], "label"))
			return TupleV{}
		}
	case "vpReach":
		return func(w *W, fn *ssa.Function, a []Value) Value {
			w.reaches = append(w.reaches, w.mustStr(a[0], "label"))
			w.obsTerms = append(w.obsTerms, nil)
			return TupleV{}
		}
	case "vpObserve":
		return func(w *W, fn *ssa.Function, a []Value) Value {
			w.reaches = append(w.reaches, w.mustStr(a[0], "label")+"=")
			w.obsTerms = append(w.obsTerms, w.C.Resize(w.termOf(a[1]), 64, false))
			return TupleV{}
		}
	case "vpMul128":
		return func(w *W, fn *ssa.Function, a []Value) Value {
			c := w.C
			x, y := c.ZExt(w.termOf(a[0]), 64), c.ZExt(w.termOf(a[1]), 64)
			p := c.Mul(x, y)
			return TupleV{c.Extract(p, 127, 64), c.Extract(p, 63, 0)}
		}
	case "vpDivMod128":
		// (hi:lo) / d  -> quotient (must fit: hi < d assumed by caller), remainder
		return func(w *W, fn *ssa.Function, a []Value) Value {
			c := w.C
			n := c.Concat(w.termOf(a[0]), w.termOf(a[1]))
			d := c.ZExt(w.termOf(a[2]), 64)
			q := c.UDiv(n, d)
			r := c.URem(n, d)
			return TupleV{c.Extract(q, 127, 64), c.Extract(q, 63, 0), c.Extract(r, 63, 0)}
		}
	case "vpAdd128":
		return func(w *W, fn *ssa.Function, a []Value) Value {
			c := w.C
			s := c.Add(c.ZExt(w.termOf(a[0]), 64), c.ZExt(w.termOf(a[1]), 64))
			return TupleV{c.Extract(s, 127, 64), c.Extract(s, 63, 0)}
		}
	case "vpUF64":
		// uninterpreted 64-bit function of 64-bit arguments (callee summaries)
		return func(w *W, fn *ssa.Function, a []Value) Value {
			var in []*smt.Term
			w.flattenBytes(a[1], &in)
			return concatBytes(w.C, w.hashUF("vpuf:"+w.mustStr(a[0], "uf name"), in, 8, false))
		}
	case "vpUFBytes":
		// uninterpreted function from byte strings to n bytes: vpUFBytes(name, n, args...)
		return func(w *W, fn *ssa.Function, a []Value) Value {
			n := int(w.concInt(w.termOf(a[1]), true, "vpUFBytes length"))
			var in []*smt.Term
			if sl, ok := a[2].(SliceV); ok {
				for _, part := range w.sliceValues(sl) {
					ps := part.(SliceV)
					// length-prefix each part so that different splits are different inputs
					in = append(in, w.C.BVu(uint64(ps.Len), 8))
					in = append(in, w.sliceBytes(ps)...)
				}
			}
			return w.makeByteSlice(w.hashUF("vpufb:"+w.mustStr(a[0], "uf name"), in, n, false))
		}
	case "vpUFBytesInj":
		return func(w *W, fn *ssa.Function, a []Value) Value {
			n := int(w.concInt(w.termOf(a[1]), true, "vpUFBytes length"))
			var in []*smt.Term
			if sl, ok := a[2].(SliceV); ok {
				for _, part := range w.sliceValues(sl) {
					ps := part.(SliceV)
					in = append(in, w.C.BVu(uint64(ps.Len), 8))
					in = append(in, w.sliceBytes(ps)...)
				}
			}
			return w.makeByteSlice(w.hashUF("vpufb:"+w.mustStr(a[0], "uf name"), in, n, true))
		}
	case "vpThorough":
		return func(w *W, fn *ssa.Function, a []Value) Value { return w.C.Bool(w.H.Thorough) }
	case "vpSymbolic":
		return func(w *W, fn *ssa.Function, a []Value) Value { return w.C.True() }
	}
	return nil
}

func (e *Engine) vpLookup(h *Harness, fn *ssa.Function) (Rule, bool) {
	if fn.Pkg == nil || h == nil || fn.Pkg.Pkg.Path() != h.Pkg || !strings.HasPrefix(fn.Name(), "vp") {
		return nil, false
	}
	r := vpRule(fn.Name())
	return r, r != nil
}
