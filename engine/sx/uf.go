package sx

import (
	"fmt"
	"go/types"
	"strconv"
	"strings"

	"gosx/smt"

	"golang.org/x/tools/go/ssa"
)

// Generic uninterpreted-function rule, selected from a harness with
//
//	//vp:rule <function> uf:<name>[:inj][:len=<n>][:noerr]
//
// The call is replaced by applications of uninterpreted functions of the
// flattened argument bytes: one function per result component. With ":inj" the
// first non-error component is collision free (A-HASH style axioms). String and
// []byte results have the fixed length given by ":len=". An error result is nil
// or one fixed opaque error, decided by a UF predicate of the arguments (so the
// same arguments always give the same verdict); ":noerr" makes it always nil.

func (w *W) flattenBytes(v Value, out *[]*smt.Term) {
	c := w.C
	switch x := v.(type) {
	case *smt.Term:
		if x.W == 0 {
			*out = append(*out, c.Ite(x, c.BVu(1, 8), c.BVu(0, 8)))
			return
		}
		if x.W%8 != 0 {
			w.unsupported("uf argument of odd width")
		}
		*out = append(*out, splitBytes(c, x)...)
	case StrV:
		*out = append(*out, x.B...)
	case SliceV:
		for _, e := range w.sliceValues(x) {
			w.flattenBytes(e, out)
		}
	case ArrayV:
		for _, e := range x.E {
			w.flattenBytes(e, out)
		}
	case StructV:
		for _, f := range x.F {
			w.flattenBytes(f, out)
		}
	case PtrV:
		if x.C == nil || x.Alts != nil {
			w.unsupported("uf argument: nil or symbolic pointer")
		}
		w.flattenBytes(w.load(x.C), out)
	default:
		w.unsupported(fmt.Sprintf("uf argument of type %T", v))
	}
}

// typeBytes is the number of bytes valueFromBytes consumes for t (-1: needs len).
func typeBytes(t types.Type) int {
	switch u := t.Underlying().(type) {
	case *types.Basic:
		if wd, _, ok := intWidth(u); ok {
			if wd == 0 {
				return 1
			}
			return wd / 8
		}
		return -1
	case *types.Array:
		e := typeBytes(u.Elem())
		if e < 0 {
			return -1
		}
		return e * int(u.Len())
	case *types.Struct:
		n := 0
		for i := 0; i < u.NumFields(); i++ {
			e := typeBytes(u.Field(i).Type())
			if e < 0 {
				return -1
			}
			n += e
		}
		return n
	}
	return -1
}

func (w *W) valueFromBytes(t types.Type, bs []*smt.Term) Value {
	c := w.C
	switch u := t.Underlying().(type) {
	case *types.Basic:
		if wd, _, ok := intWidth(u); ok {
			if wd == 0 {
				return c.Not(c.Eq(c.Extract(bs[0], 0, 0), c.BVu(0, 1)))
			}
			return concatBytes(c, bs[:wd/8])
		}
	case *types.Array:
		e := typeBytes(u.Elem())
		a := ArrayV{E: make([]Value, u.Len())}
		for i := range a.E {
			a.E[i] = w.valueFromBytes(u.Elem(), bs[i*e:(i+1)*e])
		}
		return a
	case *types.Struct:
		s := StructV{F: make([]Value, u.NumFields())}
		off := 0
		for i := range s.F {
			e := typeBytes(u.Field(i).Type())
			s.F[i] = w.valueFromBytes(u.Field(i).Type(), bs[off:off+e])
			off += e
		}
		return s
	}
	w.unsupported("uf result of type " + t.String())
	return nil
}

func ufRule(spec string) Rule {
	parts := strings.Split(spec, ":")
	name := parts[0]
	inj, noerr := false, false
	strLen := -1
	for _, p := range parts[1:] {
		switch {
		case p == "inj":
			inj = true
		case p == "noerr":
			noerr = true
		case strings.HasPrefix(p, "len="):
			strLen, _ = strconv.Atoi(p[4:])
		default:
			panic("sx: bad uf rule option " + p)
		}
	}
	return func(w *W, fn *ssa.Function, args []Value) Value {
		var in []*smt.Term
		for _, a := range args {
			w.flattenBytes(a, &in)
		}
		res := fn.Signature.Results()
		vals := make(TupleV, res.Len())
		first := true
		for i := 0; i < res.Len(); i++ {
			rt := res.At(i).Type()
			comp := fmt.Sprintf("%s.r%d", name, i)
			if isErrorType(rt) {
				if noerr {
					vals[i] = IfaceV{}
					continue
				}
				bit := w.hashUF(name+".err", in, 1, false)[0]
				isErr := w.C.Not(w.C.Eq(w.C.Extract(bit, 0, 0), w.C.BVu(0, 1)))
				if w.Branch(isErr) {
					key := "uferr:" + name
					ev, ok := w.extra[key]
					if !ok {
						ev = w.opaqueError("<error from " + name + ">")
						w.extra[key] = ev
					}
					vals[i] = ev.(Value)
				} else {
					vals[i] = IfaceV{}
				}
				continue
			}
			useInj := inj && first
			first = false
			switch {
			case isString(rt):
				if strLen < 0 {
					w.unsupported("uf rule for " + fn.String() + " needs :len=")
				}
				vals[i] = StrV{B: w.hashUF(comp, in, strLen, useInj)}
			case isByteSlice(rt):
				if strLen < 0 {
					w.unsupported("uf rule for " + fn.String() + " needs :len=")
				}
				vals[i] = w.makeByteSlice(w.hashUF(comp, in, strLen, useInj))
			default:
				n := typeBytes(rt)
				if n < 0 {
					w.unsupported("uf rule: result type " + rt.String())
				}
				vals[i] = w.valueFromBytes(rt, w.hashUF(comp, in, n, useInj))
			}
		}
		switch len(vals) {
		case 0:
			return TupleV{}
		case 1:
			return vals[0]
		}
		return vals
	}
}

func isByteSlice(t types.Type) bool {
	s, ok := t.Underlying().(*types.Slice)
	if !ok {
		return false
	}
	b, ok := s.Elem().Underlying().(*types.Basic)
	return ok && b.Kind() == types.Uint8
}
