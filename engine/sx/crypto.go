package sx

import (
	"crypto/sha256"
	"fmt"

	"gosx/smt"

	"golang.org/x/tools/go/ssa"
)

const cipherPkg = "github.com/skycoin/skycoin/src/cipher"

func concatBytes(c *smt.Ctx, bs []*smt.Term) *smt.Term {
	r := bs[0]
	for _, b := range bs[1:] {
		r = c.Concat(r, b)
	}
	return r
}

func splitBytes(c *smt.Ctx, t *smt.Term) []*smt.Term {
	n := t.W / 8
	out := make([]*smt.Term, n)
	for i := 0; i < n; i++ {
		hi := t.W - 1 - 8*i
		out[i] = c.Extract(t, hi, hi-7)
	}
	return out
}

// hashUF applies the uninterpreted function name_<len(in)> to the input bytes
// and returns outBytes bytes. With injective=true the collision-freedom axioms
// (A-HASH) are instantiated against every earlier application on this path.
func (w *W) hashUF(name string, in []*smt.Term, outBytes int, injective bool) []*smt.Term {
	c := w.C
	var out *smt.Term
	var inT *smt.Term
	fname := fmt.Sprintf("%s_%d", name, len(in))
	if len(in) == 0 {
		out = c.App(fname, outBytes*8)
	} else {
		inT = concatBytes(c, in)
		out = c.App(fname, outBytes*8, inT)
	}
	if injective {
		apps := w.ufApps[name]
		dup := false
		for _, a := range apps {
			if a.out == out {
				dup = true
				break
			}
		}
		if !dup {
			for _, a := range apps {
				if (a.in == nil) != (inT == nil) || (a.in != nil && a.in.W != inT.W) {
					// different input lengths never collide
					w.assertRaw(c.Not(c.Eq(a.out, out)))
				} else if a.in != nil {
					w.assertRaw(c.Implies(c.Eq(a.out, out), c.Eq(a.in, inT)))
				}
			}
			w.ufApps[name] = append(apps, ufApp{in: inT, out: out})
		}
	}
	return splitBytes(c, out)
}

func bytesToArrayV(bs []*smt.Term) ArrayV {
	a := ArrayV{E: make([]Value, len(bs))}
	for i, b := range bs {
		a.E[i] = b
	}
	return a
}

func arrayBytes(v Value) []*smt.Term {
	a := v.(ArrayV)
	out := make([]*smt.Term, len(a.E))
	for i, e := range a.E {
		out[i] = e.(*smt.Term)
	}
	return out
}

func registerCrypto(e *Engine) {
	e.AddRule(cipherPkg+".SumSHA256", func(w *W, fn *ssa.Function, a []Value) Value {
		in := w.sliceBytes(a[0].(SliceV))
		// package initialisers run concretely (hard-coded addresses are decoded and
		// checksummed there): use the real hash for their constant inputs
		if w.initDepth > 0 {
			if cs, ok := concreteStr(StrV{B: in}); ok {
				sum := sha256.Sum256([]byte(cs))
				out := make([]*smt.Term, 32)
				for i, b := range sum {
					out[i] = w.C.BVu(uint64(b), 8)
				}
				return bytesToArrayV(out)
			}
		}
		return bytesToArrayV(w.hashUF("sha256", in, 32, true))
	})
	e.AddRule(cipherPkg+".HashRipemd160", func(w *W, fn *ssa.Function, a []Value) Value {
		in := w.sliceBytes(a[0].(SliceV))
		return bytesToArrayV(w.hashUF("ripemd160", in, 20, true))
	})
	// the package's explicit init() builds channel-based hash pools and runs a
	// cryptographic self test; neither is needed once hashing is abstracted.
	e.AddRule(cipherPkg+".init#1", ruleNoop)
}
