// gosx: solver-based checking of skycoin properties by symbolic execution of
// the real code's SSA. See /verif/DESIGN.md.
package main

import (
	"encoding/json"
	"flag"
	"fmt"
	"go/ast"
	"go/parser"
	"go/token"
	"os"
	"os/exec"
	"path/filepath"
	"runtime"
	"runtime/pprof"
	"sort"
	"strconv"
	"strings"
	"sync"
	"time"

	"gosx/sx"
)

const (
	verifDir   = "/verif"
	modulePath = "github.com/skycoin/skycoin"
)

// repoDir is the tree under check. GOSX_REPO points the engine at a scratch
// worktree (used by tools/seedcheck.sh only; registered commands use /repo).
var repoDir = func() string {
	if d := os.Getenv("GOSX_REPO"); d != "" {
		return d
	}
	return "/repo"
}()

type HarnessDef struct {
	Prop     string
	Props    []string
	Func     string
	File     string // harness source file
	RelDir   string // e.g. src/util/mathutil
	PkgName  string
	Tier     string // "", "quick", "thorough"
	NoReplay string
	Assumes  []string
	Bounds   []string
	Outside  []string
	H        sx.Harness
	Labels   []string // vpAssert labels appearing in the harness source
}

func parseHarnessFile(path string) ([]*HarnessDef, string, bool, error) {
	fset := token.NewFileSet()
	f, err := parser.ParseFile(fset, path, nil, parser.ParseComments)
	if err != nil {
		return nil, "", false, err
	}
	shared := false
	for _, cg := range f.Comments {
		for _, c := range cg.List {
			if strings.HasPrefix(c.Text, "//vp:shared") {
				shared = true
			}
		}
	}
	rel, _ := filepath.Rel(filepath.Join(verifDir, "harness"), filepath.Dir(path))
	var out []*HarnessDef
	for _, d := range f.Decls {
		fd, ok := d.(*ast.FuncDecl)
		if !ok || fd.Recv != nil || !strings.HasPrefix(fd.Name.Name, "vpH_") || fd.Doc == nil {
			continue
		}
		hd := &HarnessDef{Func: fd.Name.Name, File: path, RelDir: rel, PkgName: f.Name.Name}
		hd.H.Name = fd.Name.Name
		hd.H.Func = fd.Name.Name
		hd.H.Pkg = modulePath + "/" + rel
		hd.H.Rules = map[string]string{}
		for _, c := range fd.Doc.List {
			t := strings.TrimSpace(strings.TrimPrefix(c.Text, "//"))
			if !strings.HasPrefix(t, "vp:") {
				continue
			}
			parts := strings.SplitN(t[3:], " ", 2)
			arg := ""
			if len(parts) > 1 {
				arg = strings.TrimSpace(parts[1])
			}
			switch parts[0] {
			case "prop":
				hd.Props = strings.Fields(arg)
				if len(hd.Props) > 0 {
					hd.Prop = hd.Props[0]
				}
			case "tier":
				hd.Tier = arg
			case "unwind":
				hd.H.Unwind, _ = strconv.Atoi(arg)
			case "maxvalues":
				hd.H.MaxValues, _ = strconv.Atoi(arg)
			case "maxpaths":
				hd.H.MaxPaths, _ = strconv.Atoi(arg)
			case "maxsteps":
				hd.H.MaxSteps, _ = strconv.Atoi(arg)
			case "symindex":
				hd.H.MaxSymIndex, _ = strconv.Atoi(arg)
			case "timeout":
				hd.H.TimeoutMs, _ = strconv.Atoi(arg)
			case "maporder":
				hd.H.MapOrderAny = arg == "any"
			case "rule":
				kv := strings.Fields(arg)
				if len(kv) == 2 {
					hd.H.Rules[kv[0]] = kv[1]
				} else {
					return nil, "", false, fmt.Errorf("%s: bad vp:rule %q", path, arg)
				}
			case "noreplay":
				hd.NoReplay = arg
				if arg == "" {
					hd.NoReplay = "uses abstractions"
				}
			case "assume":
				hd.Assumes = append(hd.Assumes, arg)
			case "bounds":
				hd.Bounds = append(hd.Bounds, arg)
			case "outside":
				hd.Outside = append(hd.Outside, arg)
			default:
				return nil, "", false, fmt.Errorf("%s: unknown directive vp:%s", path, parts[0])
			}
		}
		ast.Inspect(fd.Body, func(n ast.Node) bool {
			if ce, ok := n.(*ast.CallExpr); ok {
				if id, ok := ce.Fun.(*ast.Ident); ok && id.Name == "vpAssert" && len(ce.Args) == 2 {
					if bl, ok := ce.Args[1].(*ast.BasicLit); ok {
						if s, err := strconv.Unquote(bl.Value); err == nil {
							hd.Labels = append(hd.Labels, s)
						}
					}
				}
			}
			return true
		})
		if hd.Prop != "" {
			out = append(out, hd)
		}
	}
	return out, f.Name.Name, shared, nil
}

func (d *HarnessDef) hasProp(p string) bool {
	for _, x := range d.Props {
		if x == p {
			return true
		}
	}
	return false
}

type fileInfo struct {
	path, relDir, pkgName string
	shared                bool
	defs                  []*HarnessDef
}

func scanHarnesses() ([]fileInfo, error) {
	var files []fileInfo
	root := filepath.Join(verifDir, "harness")
	err := filepath.Walk(root, func(p string, info os.FileInfo, err error) error {
		if err != nil {
			return err
		}
		if info.IsDir() {
			if info.Name() == "rt" {
				return filepath.SkipDir
			}
			return nil
		}
		if !strings.HasSuffix(p, ".go") || strings.HasSuffix(p, "_test.go") {
			return nil
		}
		defs, pkg, shared, err := parseHarnessFile(p)
		if err != nil {
			return err
		}
		rel, _ := filepath.Rel(root, filepath.Dir(p))
		files = append(files, fileInfo{path: p, relDir: rel, pkgName: pkg, shared: shared, defs: defs})
		return nil
	})
	return files, err
}

func main() {
	if len(os.Args) < 2 {
		fmt.Fprintln(os.Stderr, "usage: gosx check <Cxx> [--tier quick|thorough] | list | selftest")
		os.Exit(2)
	}
	switch os.Args[1] {
	case "check":
		if pf := os.Getenv("GOSX_CPUPROFILE"); pf != "" {
			f, err := os.Create(pf)
			if err == nil {
				pprof.StartCPUProfile(f)
				code := cmdCheck(os.Args[2:])
				pprof.StopCPUProfile()
				f.Close()
				os.Exit(code)
			}
		}
		os.Exit(cmdCheck(os.Args[2:]))
	case "replay":
		os.Exit(cmdReplay(os.Args[2:]))
	case "list":
		files, err := scanHarnesses()
		if err != nil {
			fmt.Fprintln(os.Stderr, err)
			os.Exit(2)
		}
		for _, f := range files {
			for _, d := range f.defs {
				fmt.Printf("%s %s %s tier=%s\n", strings.Join(d.Props, ","), d.Func, d.RelDir, d.Tier)
			}
		}
	default:
		fmt.Fprintln(os.Stderr, "unknown command", os.Args[1])
		os.Exit(2)
	}
}

func cmdCheck(args []string) int {
	fs := flag.NewFlagSet("check", flag.ExitOnError)
	tier := fs.String("tier", "", "quick or thorough")
	only := fs.String("only", "", "run only harnesses whose name contains this")
	workers := fs.Int("workers", 0, "parallel workers")
	verbose := fs.Bool("v", false, "verbose")
	noNative := fs.Bool("no-native", false, "skip native replay/validation")
	noEvidence := fs.Bool("no-evidence", false, "do not write the evidence file")
	var prop string
	if len(args) > 0 && !strings.HasPrefix(args[0], "-") {
		prop = args[0]
		args = args[1:]
	}
	fs.Parse(args)
	if prop == "" && fs.NArg() > 0 {
		prop = fs.Arg(0)
	}
	if *tier == "" {
		*tier = os.Getenv("VERIF_TIER")
	}
	if *tier == "" {
		*tier = "quick"
	}
	if *workers == 0 {
		*workers = runtime.NumCPU()
	}
	seed, _ := strconv.Atoi(os.Getenv("VERIF_SEED"))
	t0 := time.Now()

	files, err := scanHarnesses()
	if err != nil {
		fmt.Fprintln(os.Stderr, "harness scan:", err)
		return 2
	}
	var defs []*HarnessDef
	pkgDirs := map[string]bool{}
	for _, f := range files {
		for _, d := range f.defs {
			if !d.hasProp(prop) {
				continue
			}
			if d.Tier == "thorough" && *tier != "thorough" {
				continue
			}
			if d.Tier == "quick" && *tier != "quick" {
				continue
			}
			if *only != "" && !strings.Contains(d.Func, *only) {
				continue
			}
			defs = append(defs, d)
			pkgDirs[d.RelDir] = true
		}
	}
	if len(defs) == 0 {
		fmt.Fprintf(os.Stderr, "no harnesses for property %s (tier %s)\n", prop, *tier)
		return 2
	}
	scratch, err := os.MkdirTemp("", "gosx-"+prop+"-")
	if err != nil {
		fmt.Fprintln(os.Stderr, err)
		return 2
	}
	defer os.RemoveAll(scratch)
	overlay, nativeOverlay, patterns := prepareOverlay(files, prop, defs, pkgDirs, *tier, scratch)
	sort.Strings(patterns)

	eng, err := sx.Load(repoDir, patterns, overlay)
	if err != nil {
		fmt.Fprintln(os.Stderr, "load:", err)
		fmt.Printf("INCONCLUSIVE property=%s reason=load-failure\n", prop)
		return 2
	}
	eng.Verbose = *verbose
	fmt.Printf("gosx: loaded %d packages (SSA built from %s working tree) in %.1fs\n", len(eng.Pkgs), repoDir, eng.LoadTime.Seconds())

	rep := newReport(prop, *tier, seed)
	// harnesses run concurrently; each gets a share of the workers
	results := make([]*sx.Result, len(defs))
	per := *workers / len(defs)
	if per < 2 {
		per = 2
	}
	sem := make(chan struct{}, (*workers+per-1)/per)
	var wg sync.WaitGroup
	for i, d := range defs {
		wg.Add(1)
		go func(i int, d *HarnessDef) {
			defer wg.Done()
			sem <- struct{}{}
			defer func() { <-sem }()
			h := d.H
			h.Thorough = *tier == "thorough"
			if *tier == "thorough" && h.TimeoutMs == 0 {
				h.TimeoutMs = 60000
			}
			results[i] = eng.Explore(&h, per)
		}(i, d)
	}
	wg.Wait()
	for i, d := range defs {
		rep.add(d, results[i], *verbose)
	}
	if !*noNative {
		rep.native(nativeOverlay, scratch)
	}
	code := rep.finish(time.Since(t0), eng, !*noEvidence)
	return code
}

// prepareOverlay builds the go/packages overlay (virtual files under /repo) and
// the matching go test -overlay map for the harness files of one property.
func prepareOverlay(files []fileInfo, prop string, defs []*HarnessDef, pkgDirs map[string]bool, tier, scratch string) (map[string][]byte, map[string]string, []string) {
	overlay := map[string][]byte{}
	nativeOverlay := map[string]string{}
	rtTmpl, _ := os.ReadFile(filepath.Join(verifDir, "harness/rt/zz_vp_rt.go.tmpl"))
	testTmpl, _ := os.ReadFile(filepath.Join(verifDir, "harness/rt/zz_vp_replay_test.go.tmpl"))
	pkgNames := map[string]string{}
	for _, f := range files {
		if !pkgDirs[f.relDir] {
			continue
		}
		use := f.shared
		for _, d := range f.defs {
			if d.hasProp(prop) {
				use = true
			}
		}
		if !use {
			continue
		}
		src, _ := os.ReadFile(f.path)
		virt := filepath.Join(repoDir, f.relDir, "zz_vp_"+filepath.Base(f.path))
		overlay[virt] = src
		nativeOverlay[virt] = f.path
		pkgNames[f.relDir] = f.pkgName
	}
	var patterns []string
	for dir := range pkgDirs {
		patterns = append(patterns, "./"+dir)
		rt := strings.Replace(string(rtTmpl), "package PKGNAME", "package "+pkgNames[dir], 1)
		if tier == "thorough" {
			rt += "\nfunc vpThorough() bool { return true }\n"
		} else {
			rt += "\nfunc vpThorough() bool { return false }\n"
		}
		virt := filepath.Join(repoDir, dir, "zz_vp_rt.go")
		overlay[virt] = []byte(rt)
		real := filepath.Join(scratch, strings.ReplaceAll(dir, "/", "_")+"_rt.go")
		os.WriteFile(real, []byte(rt), 0644)
		nativeOverlay[virt] = real
		// test driver
		var table strings.Builder
		for _, d := range defs {
			if d.RelDir == dir && d.NoReplay == "" {
				fmt.Fprintf(&table, "\t%q: %s,\n", d.Func, d.Func)
			}
		}
		tst := strings.Replace(string(testTmpl), "package PKGNAME", "package "+pkgNames[dir], 1)
		tst = strings.Replace(tst, "\t//HARNESS_TABLE\n", table.String(), 1)
		realT := filepath.Join(scratch, strings.ReplaceAll(dir, "/", "_")+"_replay_test.go")
		os.WriteFile(realT, []byte(tst), 0644)
		nativeOverlay[filepath.Join(repoDir, dir, "zz_vp_replay_test.go")] = realT
	}
	return overlay, nativeOverlay, patterns
}

// cmdReplay re-runs a recorded counterexample against the real compiled code.
// Exit 1 (with a VIOLATION line) if it reproduces, 0 if it does not, 2 if it
// cannot be replayed natively (harness uses abstractions).
func cmdReplay(args []string) int {
	if len(args) < 1 {
		fmt.Fprintln(os.Stderr, "usage: gosx replay <replay.json>")
		return 2
	}
	data, err := os.ReadFile(args[0])
	if err != nil {
		fmt.Fprintln(os.Stderr, err)
		return 2
	}
	var c candidate
	if err := json.Unmarshal(data, &c); err != nil {
		fmt.Fprintln(os.Stderr, "bad replay file:", err)
		return 2
	}
	files, err := scanHarnesses()
	if err != nil {
		fmt.Fprintln(os.Stderr, err)
		return 2
	}
	var def *HarnessDef
	for _, f := range files {
		for _, d := range f.defs {
			if d.Func == c.Harness {
				def = d
			}
		}
	}
	if def == nil {
		fmt.Fprintln(os.Stderr, "harness not found:", c.Harness)
		return 2
	}
	fmt.Printf("replay: property=%s harness=%s assertion=%s inputs=%v\n", def.Prop, c.Harness, c.Label, c.Vals)
	if def.NoReplay != "" || c.Vals == nil {
		fmt.Printf("this counterexample is model-level (%s); re-run the check to re-derive it: gosx check %s --only %s\n", def.NoReplay, def.Prop, strings.TrimPrefix(c.Harness, "vpH_"))
		return 2
	}
	scratch, err := os.MkdirTemp("", "gosx-replay-")
	if err != nil {
		return 2
	}
	defer os.RemoveAll(scratch)
	_, nativeOverlay, _ := prepareOverlay(files, def.Prop, []*HarnessDef{def}, map[string]bool{def.RelDir: true}, "quick", scratch)
	ovPath := filepath.Join(scratch, "overlay.json")
	writeJSON(ovPath, struct{ Replace map[string]string }{nativeOverlay})
	in := filepath.Join(scratch, "in.json")
	out := filepath.Join(scratch, "out.json")
	writeJSON(in, []map[string]interface{}{{"ID": 1, "Harness": c.Harness, "Vals": c.Vals}})
	txt, _ := runCmd(repoDir, []string{"GOFLAGS=-mod=vendor", "GOPROXY=off", "GOTOOLCHAIN=local", "VP_REPLAY_IN=" + in, "VP_REPLAY_OUT=" + out},
		"timeout", "900", "go", "test", "-vet=off", "-count=1", "-run", "^TestVPReplay$", "-overlay", ovPath, "./"+def.RelDir+"/")
	res, rerr := os.ReadFile(out)
	if rerr != nil {
		fmt.Println("native replay did not run:\n" + txt)
		return 2
	}
	var outs []struct {
		ID      int
		Outcome string
	}
	json.Unmarshal(res, &outs)
	if len(outs) != 1 {
		return 2
	}
	fmt.Println("native outcome:", outs[0].Outcome)
	want := "assert:" + c.Label
	if (c.Kind == "assert" && outs[0].Outcome == want) || (c.Kind == "panic" && strings.HasPrefix(outs[0].Outcome, "panic:")) {
		fmt.Printf("VIOLATION property=%s replay=%s\n", def.Prop, args[0])
		return 1
	}
	fmt.Println("not reproduced on the current tree")
	return 0
}

func runCmd(dir string, env []string, name string, args ...string) (string, error) {
	cmd := exec.Command(name, args...)
	cmd.Dir = dir
	cmd.Env = append(os.Environ(), env...)
	out, err := cmd.CombinedOutput()
	return string(out), err
}

func writeJSON(path string, v interface{}) error {
	b, err := json.MarshalIndent(v, "", " ")
	if err != nil {
		return err
	}
	os.MkdirAll(filepath.Dir(path), 0755)
	return os.WriteFile(path, b, 0644)
}
