package main

import (
	"bufio"
	"encoding/json"
	"fmt"
	"os"
	"path/filepath"
	"sort"
	"strings"
	"time"

	"gosx/sx"
)

type candidate struct {
	Harness    string   `json:"harness"`
	Label      string   `json:"label"`
	Kind       string   `json:"kind"` // assert | panic
	Msg        string   `json:"msg,omitempty"`
	Pos        string   `json:"pos,omitempty"`
	Vals       []string `json:"vals"`
	Tags       []string `json:"tags,omitempty"`
	Replayable bool     `json:"replayable"`
	Confirmed  string   `json:"confirmed"` // native | model-level | not-reproduced
	NativeOut  string   `json:"native_outcome,omitempty"`
	RelDir     string   `json:"pkg_dir"`
	caseID     int
}

type harnessRun struct {
	def        *HarnessDef
	res        *sx.Result
	problems   []string
	candidates []*candidate
	validated  int
	disagree   []string
	valCases   []nativeCase
}

type nativeCase struct {
	ID      int
	Harness string
	Vals    []string
	expect  string
	reaches []string
	run     *harnessRun
	cand    *candidate
}

type report struct {
	prop, tier string
	seed       int
	runs       []*harnessRun
	nextCase   int
}

func newReport(prop, tier string, seed int) *report {
	return &report{prop: prop, tier: tier, seed: seed}
}

func (r *report) add(d *HarnessDef, res *sx.Result, verbose bool) {
	run := &harnessRun{def: d, res: res}
	r.runs = append(r.runs, run)
	counts := map[string]int{}
	for _, p := range res.Paths {
		counts[p.Status]++
	}
	ac := map[string]int{}
	seenLabel := map[string]bool{}
	for _, a := range res.Asserts {
		ac[a.Status]++
		seenLabel[a.Label] = true
	}
	fmt.Printf("  %-44s paths=%d %v asserts=%v queries=%d solver=%.1fs models=%d/%.1fs wall=%.1fs\n", d.Func, len(res.Paths), counts, ac,
		res.Solver.Queries, (res.Solver.Time + res.Solver.FallbackDur).Seconds(), res.Solver.ModelCalls, res.Solver.ModelTime.Seconds(), res.Wall.Seconds())
	for _, e := range res.Errors {
		run.problems = append(run.problems, e)
	}
	if res.Truncated {
		run.problems = append(run.problems, "path limit reached; exploration truncated")
	}
	for _, st := range []string{"unsupported", "unwind", "steps", "unknown", "engine-error"} {
		if counts[st] > 0 {
			msg := ""
			for _, p := range res.Paths {
				if p.Status == st {
					msg = p.Msg
					break
				}
			}
			run.problems = append(run.problems, fmt.Sprintf("%d path(s) ended as %s: %s", counts[st], st, firstLines(msg, 12)))
		}
	}
	if ac["unknown"] > 0 {
		run.problems = append(run.problems, fmt.Sprintf("%d assertion(s) undecided by every solver back end", ac["unknown"]))
	}
	if counts["done"]+counts["panic"] == 0 {
		run.problems = append(run.problems, "vacuous: no feasible path completed")
	}
	for _, l := range d.Labels {
		if !seenLabel[l] {
			run.problems = append(run.problems, "vacuous: assertion "+l+" was never reached")
		}
	}
	// candidates
	for _, a := range res.Asserts {
		if a.Status == "violated" {
			run.candidates = append(run.candidates, &candidate{Harness: d.Func, Label: a.Label, Kind: "assert", Pos: a.Pos,
				Vals: a.Model, Tags: a.Tags, RelDir: d.RelDir})
		}
	}
	seenPanic := map[string]bool{}
	for _, p := range res.Paths {
		if p.Status == "panic" {
			key := p.Msg
			if seenPanic[key] {
				continue
			}
			seenPanic[key] = true
			run.candidates = append(run.candidates, &candidate{Harness: d.Func, Label: "no-panic", Kind: "panic", Msg: p.Msg,
				Vals: p.Witness, Tags: p.NondetTags, RelDir: d.RelDir})
		}
	}
	if verbose {
		for _, p := range run.problems {
			fmt.Println("    problem:", p)
		}
	}
}

func firstLines(s string, n int) string {
	ls := strings.Split(s, "\n")
	if len(ls) > n {
		ls = ls[:n]
	}
	return strings.Join(ls, "\n")
}

// native runs solver witnesses through the real compiled code.
func (r *report) native(overlay map[string]string, scratch string) {
	byDir := map[string][]*nativeCase{}
	for _, run := range r.runs {
		replayable := run.def.NoReplay == ""
		for _, c := range run.candidates {
			c.Replayable = replayable
			if !replayable {
				c.Confirmed = "model-level"
				continue
			}
			if c.Vals == nil {
				c.Confirmed = "model-level"
				c.Replayable = false
				continue
			}
			r.nextCase++
			nc := &nativeCase{ID: r.nextCase, Harness: c.Harness, Vals: c.Vals, run: run, cand: c}
			if c.Kind == "assert" {
				nc.expect = "assert:" + c.Label
			} else {
				nc.expect = "panic:"
			}
			byDir[run.def.RelDir] = append(byDir[run.def.RelDir], nc)
		}
		if !replayable {
			continue
		}
		n := 0
		for _, p := range run.res.Paths {
			if p.Witness == nil || p.HasInternal || (p.Status != "done" && p.Status != "panic") {
				continue
			}
			if n >= 400 {
				break
			}
			n++
			r.nextCase++
			nc := &nativeCase{ID: r.nextCase, Harness: run.def.Func, Vals: p.Witness, run: run, reaches: p.Reaches}
			if p.Status == "done" {
				nc.expect = "done"
			} else {
				nc.expect = "panic:"
			}
			byDir[run.def.RelDir] = append(byDir[run.def.RelDir], nc)
		}
	}
	if len(byDir) == 0 {
		return
	}
	ov := struct{ Replace map[string]string }{overlay}
	ovPath := filepath.Join(scratch, "overlay.json")
	writeJSON(ovPath, ov)
	for dir, cases := range byDir {
		in := filepath.Join(scratch, strings.ReplaceAll(dir, "/", "_")+"_in.json")
		out := filepath.Join(scratch, strings.ReplaceAll(dir, "/", "_")+"_out.json")
		writeJSON(in, cases)
		t0 := time.Now()
		txt, err := runCmd(repoDir, []string{"GOFLAGS=-mod=vendor", "GOPROXY=off", "GOTOOLCHAIN=local", "VP_REPLAY_IN=" + in, "VP_REPLAY_OUT=" + out},
			"timeout", "900", "go", "test", "-vet=off", "-count=1", "-run", "^TestVPReplay$", "-overlay", ovPath, "./"+dir+"/")
		fmt.Printf("  native: %d case(s) in %s ran in %.1fs\n", len(cases), dir, time.Since(t0).Seconds())
		data, rerr := os.ReadFile(out)
		if rerr != nil {
			for _, c := range cases {
				c.run.problems = append(c.run.problems, "native replay did not run: "+firstLines(txt, 15))
				break
			}
			_ = err
			continue
		}
		var outs []struct {
			ID      int
			Outcome string
			Reaches []string
		}
		json.Unmarshal(data, &outs)
		byID := map[int]int{}
		for i, o := range outs {
			byID[o.ID] = i
		}
		for _, c := range cases {
			i, ok := byID[c.ID]
			if !ok {
				c.run.problems = append(c.run.problems, "native replay produced no outcome for a case")
				continue
			}
			o := outs[i]
			match := o.Outcome == c.expect || (c.expect == "panic:" && strings.HasPrefix(o.Outcome, "panic:"))
			if c.cand != nil {
				c.cand.NativeOut = o.Outcome
				if match {
					c.cand.Confirmed = "native"
				} else {
					c.cand.Confirmed = "not-reproduced"
				}
				continue
			}
			if match && c.expect == "done" && !sameReaches(o.Reaches, c.reaches) {
				match = false
			}
			if match {
				c.run.validated++
			} else {
				c.run.disagree = append(c.run.disagree, fmt.Sprintf("%s vals=%v: engine predicted %s %v, native gave %s %v", c.Harness, c.Vals, c.expect, c.reaches, o.Outcome, o.Reaches))
			}
		}
	}
}

type knownFinding struct {
	Prop, Harness, Label, Text string
}

func loadKnownFindings() []knownFinding {
	f, err := os.Open(filepath.Join(verifDir, "KNOWN_FINDINGS.txt"))
	if err != nil {
		return nil
	}
	defer f.Close()
	var out []knownFinding
	sc := bufio.NewScanner(f)
	for sc.Scan() {
		line := strings.TrimSpace(sc.Text())
		if !strings.HasPrefix(line, "finding:") {
			continue
		}
		kf := knownFinding{}
		rest := strings.TrimSpace(strings.TrimPrefix(line, "finding:"))
		parts := strings.SplitN(rest, "::", 2)
		if len(parts) == 2 {
			kf.Text = strings.TrimSpace(parts[1])
		}
		for _, f := range strings.Fields(parts[0]) {
			kv := strings.SplitN(f, "=", 2)
			if len(kv) != 2 {
				continue
			}
			switch kv[0] {
			case "property":
				kf.Prop = kv[1]
			case "harness":
				kf.Harness = kv[1]
			case "label":
				kf.Label = kv[1]
			}
		}
		out = append(out, kf)
	}
	return out
}

// at most this many counterexamples per (harness, assertion) are written out and listed
const maxReportedPerAssertion = 5

func (r *report) finish(wall time.Duration, eng *sx.Engine, writeEvidence bool) int {
	known := loadKnownFindings()
	inconclusive := false
	violations := 0
	knownHits := map[string]bool{}
	perLabel := map[string]int{}
	var replayPaths []string
	for _, run := range r.runs {
		for _, d := range run.disagree {
			run.problems = append(run.problems, "translator validation disagreement: "+d)
		}
		for _, c := range run.candidates {
			switch c.Confirmed {
			case "not-reproduced":
				run.problems = append(run.problems, fmt.Sprintf("MODEL-ONLY counterexample for %s/%s did not reproduce natively (native outcome %s); vals=%v", c.Harness, c.Label, c.NativeOut, c.Vals))
				continue
			case "":
				c.Confirmed = "model-level"
			}
			isKnown := false
			for _, k := range known {
				if k.Prop == r.prop && k.Harness == c.Harness && k.Label == c.Label {
					isKnown = true
					key := k.Harness + "/" + k.Label
					if !knownHits[key] {
						knownHits[key] = true
						fmt.Printf("KNOWN-FINDING: property=%s %s (harness %s, assertion %s)\n", r.prop, k.Text, k.Harness, k.Label)
					}
				}
			}
			if isKnown {
				continue
			}
			violations++
			perLabel[c.Harness+"/"+c.Label]++
			if perLabel[c.Harness+"/"+c.Label] > maxReportedPerAssertion {
				continue // counted, not written out again
			}
			p := filepath.Join(verifDir, "replays", r.prop, fmt.Sprintf("%s-%s-%d.json", c.Harness, sanitize(c.Label), violations))
			writeJSON(p, c)
			replayPaths = append(replayPaths, p)
			fmt.Printf("  counterexample (%s): harness=%s assertion=%s %s %s\n    inputs=%s\n", c.Confirmed, c.Harness, c.Label, c.Msg, c.Pos, showInputs(c.Tags, c.Vals))
		}
		if len(run.problems) > 0 {
			inconclusive = true
			for _, p := range run.problems {
				fmt.Printf("  INCONCLUSIVE %s: %s\n", run.def.Func, p)
			}
		}
	}
	code := 0
	switch {
	case violations > 0:
		code = 1
	case inconclusive:
		code = 2
	}
	if writeEvidence {
		r.writeEvidence(wall, eng, violations, code)
	}
	for k, n := range perLabel {
		if n > maxReportedPerAssertion {
			fmt.Printf("  (%d further counterexamples for %s not listed)\n", n-maxReportedPerAssertion, k)
		}
	}
	if violations > 0 {
		fmt.Printf("VIOLATION property=%s replay=%s\n", r.prop, replayPaths[0])
		for _, p := range replayPaths[1:] {
			fmt.Printf("VIOLATION property=%s replay=%s\n", r.prop, p)
		}
	} else if inconclusive {
		fmt.Printf("INCONCLUSIVE property=%s (exit 2: not a pass, not a violation)\n", r.prop)
	} else {
		fmt.Printf("OK property=%s tier=%s wall=%.1fs\n", r.prop, r.tier, wall.Seconds())
	}
	return code
}

func sanitize(s string) string {
	var sb strings.Builder
	for _, ch := range s {
		if ch >= 'a' && ch <= 'z' || ch >= 'A' && ch <= 'Z' || ch >= '0' && ch <= '9' || ch == '_' || ch == '-' {
			sb.WriteRune(ch)
		} else {
			sb.WriteByte('_')
		}
	}
	return sb.String()
}

func (r *report) writeEvidence(wall time.Duration, eng *sx.Engine, violations, code int) {
	states, transitions, validated := 0, int64(0), 0
	obligations, discharged := 0, 0
	queries := 0
	solverS, fbS := 0.0, 0.0
	backends := map[string]int{}
	funcs := map[string]string{}
	stubs := map[string]int{}
	var samples []interface{}
	var harnessInfo []map[string]interface{}
	assumptions := map[string]bool{}
	var bounds, outside []string
	unwindFail := 0
	refuted := 0
	distinct := map[string]bool{}
	for _, run := range r.runs {
		res := run.res
		done := 0
		for _, p := range res.Paths {
			if p.Status == "done" || p.Status == "panic" {
				done++
				distinct[run.def.Func+"|"+strings.Join(p.Witness, ",")+"|"+fmt.Sprint(p.Decisions)] = true
			}
			if p.Status == "unwind" {
				unwindFail++
			}
		}
		states += done
		transitions += res.Steps
		validated += run.validated
		ac := map[string]int{}
		for _, a := range res.Asserts {
			obligations++
			ac[a.Status]++
			if a.Status == "proved" || a.Status == "trivial" {
				discharged++
			}
		}
		queries += res.Solver.Queries
		refuted += res.Solver.Unsat
		solverS += res.Solver.Time.Seconds()
		fbS += res.Solver.FallbackDur.Seconds()
		for k, v := range res.Solver.ByBackend {
			backends[k] += v
		}
		for k, v := range res.Funcs {
			funcs[k] = v
		}
		for k, v := range res.Stubs {
			stubs[k] += v
		}
		ns := 0
		for _, p := range res.Paths {
			if (p.Status == "done" || p.Status == "panic") && ns < 3 && len(p.Witness) > 0 {
				ns++
				in := map[string]string{}
				for i, t := range p.NondetTags {
					if i < len(p.Witness) && i < 24 {
						in[fmt.Sprintf("%02d:%s", i, t)] = p.Witness[i]
					}
				}
				samples = append(samples, map[string]interface{}{"harness": run.def.Func, "path_outcome": p.Status, "branch_decisions": p.Decisions, "ssa_steps": p.Steps, "witness_inputs": in, "reached": p.Reaches})
			}
		}
		for _, a := range run.def.Assumes {
			assumptions[a] = true
		}
		for _, b := range run.def.Bounds {
			bounds = append(bounds, run.def.Func+": "+b)
		}
		for _, o := range run.def.Outside {
			outside = append(outside, run.def.Func+": "+o)
		}
		if run.def.NoReplay != "" {
			assumptions["harness "+run.def.Func+" is not replayed natively: "+run.def.NoReplay] = true
		}
		pc := map[string]int{}
		for _, p := range res.Paths {
			pc[p.Status]++
		}
		harnessInfo = append(harnessInfo, map[string]interface{}{
			"harness": run.def.Func, "package": run.def.RelDir, "paths": pc, "assertions": ac, "unwind_bound": run.def.H.Unwind,
			"solver_queries": res.Solver.Queries, "wall_s": res.Wall.Seconds(), "problems": run.problems, "native_validated_paths": run.validated,
		})
	}
	var fl []string
	for _, k := range sx.SortedKeys(funcs) {
		fl = append(fl, k+" @ "+funcs[k])
	}
	var sl []string
	for k, v := range stubs {
		sl = append(sl, fmt.Sprintf("%s (x%d)", k, v))
	}
	sort.Strings(sl)
	as := []string{"z3 4.8.12 / cvc5 1.0 / z3 5.1 are sound on QF_BV+UF; gosx implements go/ssa semantics faithfully (cross-checked by native replay of path witnesses where the harness is stub-free)"}
	for a := range assumptions {
		as = append(as, a)
	}
	sort.Strings(as)
	if len(samples) == 0 {
		samples = append(samples, "no completed path")
	}
	if states == 0 {
		states = 1
	}
	if transitions == 0 {
		transitions = 1
	}
	verdict := map[int]string{0: "holds within bounds", 1: "violation", 2: "inconclusive"}[code]
	ev := map[string]interface{}{
		"property_id": r.prop,
		"tier":        r.tier,
		"seed":        r.seed,
		"level":       "model_checking",
		"wall_s":      wall.Seconds(),
		"violations":  violations,
		"assumptions": as,
		"coverage": map[string]interface{}{
			"states":                        states,
			"transitions":                   transitions,
			"traces_validated_against_impl": validated,
			"samples":                       samples,
			"evaluations":                   states,
			"distinct_nontrivial":           len(distinct),
			"rule":                          "one case = one feasible symbolic path of a harness through the real SSA (a class of concrete inputs); distinct = different (harness, decision count, witness); every path's assertions are decided by SMT for all inputs of the class",
			"obligations":                   obligations,
			"discharged":                    discharged,
			"verdict":                       verdict,
			"functions_encoded":             fl,
			"stubs_and_intrinsics_used":     sl,
			"bounds":                        bounds,
			"outside_claim":                 outside,
			"solver_queries":                queries,
			"solver_time_s":                 map[string]float64{"z3_incremental": solverS, "fallback_portfolio": fbS},
			"queries_by_backend":            backends,
			"unwinding_assertion_failures":  unwindFail,
			"infeasible_branches_refuted":   refuted,
			"harnesses":                     harnessInfo,
			"package_init_failures":         eng.InitFailures(),
			"encoding_source":               "go/ssa built from " + repoDir + " working tree at run time (" + fmt.Sprint(len(eng.Pkgs)) + " packages)",
		},
	}
	writeJSON(filepath.Join(verifDir, "evidence", r.prop+".json"), ev)
}

// sameReaches compares native and predicted reach/observe lists; a predicted
// "label=?" (value depends on an uninterpreted function) matches any value.
func sameReaches(native, predicted []string) bool {
	if len(native) != len(predicted) {
		return false
	}
	for i := range native {
		if native[i] == predicted[i] {
			continue
		}
		if strings.HasSuffix(predicted[i], "=?") && strings.HasPrefix(native[i], strings.TrimSuffix(predicted[i], "?")) {
			continue
		}
		return false
	}
	return true
}

// showInputs renders a counterexample compactly: tag=value for non-zero values
// (runs of equal tags are grouped), or the raw vector if tags are unavailable.
func showInputs(tags, vals []string) string {
	if len(tags) != len(vals) || len(tags) == 0 {
		return fmt.Sprint(vals)
	}
	base := func(t string) string {
		if i := strings.IndexByte(t, '['); i >= 0 {
			return t[:i]
		}
		return t
	}
	var sb strings.Builder
	for i := 0; i < len(vals); {
		j := i
		for j < len(vals) && base(tags[j]) == base(tags[i]) {
			j++
		}
		allZero := true
		for k := i; k < j; k++ {
			if vals[k] != "0" {
				allZero = false
			}
		}
		switch {
		case j-i == 1:
			fmt.Fprintf(&sb, "%s=%s ", base(tags[i]), vals[i])
		case allZero:
			fmt.Fprintf(&sb, "%s[x%d]=0 ", base(tags[i]), j-i)
		default:
			fmt.Fprintf(&sb, "%s=%v ", base(tags[i]), vals[i:j])
		}
		i = j
	}
	return strings.TrimSpace(sb.String())
}
