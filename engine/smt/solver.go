package smt

import (
	"bufio"
	"fmt"
	"io"
	"math/big"
	"os"
	"os/exec"
	"runtime"
	"strings"
	"time"
)

func sortStr(w int) string {
	if w == 0 {
		return "Bool"
	}
	return fmt.Sprintf("(_ BitVec %d)", w)
}

func constStr(t *Term) string {
	if t.W == 0 {
		if t.Val.Sign() != 0 {
			return "true"
		}
		return "false"
	}
	return fmt.Sprintf("(_ bv%s %d)", t.Val.String(), t.W)
}

func quoteName(n string) string { return "|" + n + "|" }

// ref is how a term is referred to once defined.
func ref(t *Term) string {
	switch t.K {
	case KConst:
		return constStr(t)
	case KVar:
		return quoteName(t.Name)
	}
	return fmt.Sprintf("t%d", t.ID)
}

// RefName is the key under which Model reports the value of t.
func RefName(t *Term) string { return strings.Trim(ref(t), "|") }

func body(t *Term) string {
	var sb strings.Builder
	switch t.K {
	case KApp:
		if len(t.Args) == 0 {
			return quoteName(t.Name)
		}
		sb.WriteString("(" + quoteName(t.Name))
	case KExtract:
		fmt.Fprintf(&sb, "((_ extract %d %d)", t.Hi, t.Lo)
	case KZExt:
		fmt.Fprintf(&sb, "((_ zero_extend %d)", t.Hi)
	case KSExt:
		fmt.Fprintf(&sb, "((_ sign_extend %d)", t.Hi)
	default:
		sb.WriteString("(" + kindName[t.K])
	}
	for _, a := range t.Args {
		sb.WriteByte(' ')
		sb.WriteString(ref(a))
	}
	sb.WriteByte(')')
	return sb.String()
}

// emitter writes declarations/definitions for terms not yet known to a sink.
type emitter struct {
	defined map[int]bool
	ufs     map[string]bool
	out     func(string)
}

func newEmitter(out func(string)) *emitter {
	return &emitter{defined: map[int]bool{}, ufs: map[string]bool{}, out: out}
}

func (e *emitter) define(c *Ctx, t *Term) {
	if e.defined[t.ID] {
		return
	}
	// iterative post-order
	type fr struct {
		t *Term
		i int
	}
	stack := []fr{{t, 0}}
	for len(stack) > 0 {
		f := &stack[len(stack)-1]
		if e.defined[f.t.ID] {
			stack = stack[:len(stack)-1]
			continue
		}
		if f.i < len(f.t.Args) {
			a := f.t.Args[f.i]
			f.i++
			if !e.defined[a.ID] {
				stack = append(stack, fr{a, 0})
			}
			continue
		}
		n := f.t
		switch n.K {
		case KConst:
		case KVar:
			e.out(fmt.Sprintf("(declare-const %s %s)", quoteName(n.Name), sortStr(n.W)))
		default:
			if n.K == KApp && !e.ufs[n.Name] {
				d := c.UFs[n.Name]
				var as []string
				for _, w := range d.Args {
					as = append(as, sortStr(w))
				}
				e.out(fmt.Sprintf("(declare-fun %s (%s) %s)", quoteName(n.Name), strings.Join(as, " "), sortStr(d.Ret)))
				e.ufs[n.Name] = true
			}
			e.out(fmt.Sprintf("(define-fun t%d () %s %s)", n.ID, sortStr(n.W), body(n)))
		}
		e.defined[n.ID] = true
		stack = stack[:len(stack)-1]
	}
}

// Script renders a standalone SMT-LIB2 script asserting all of ts.
func Script(c *Ctx, ts []*Term, getVals []*Term) string {
	var sb strings.Builder
	sb.WriteString("(set-option :produce-models true)\n(set-logic ALL)\n")
	e := newEmitter(func(s string) { sb.WriteString(s); sb.WriteByte('\n') })
	for _, t := range ts {
		e.define(c, t)
		sb.WriteString("(assert " + ref(t) + ")\n")
	}
	sb.WriteString("(check-sat)\n")
	if len(getVals) > 0 {
		for _, v := range getVals {
			e.define(c, v)
		}
	}
	return sb.String()
}

type Result int

const (
	Unknown Result = iota
	Sat
	Unsat
)

func (r Result) String() string { return [...]string{"unknown", "sat", "unsat"}[r] }

// Stats accumulates solver usage for evidence files.
type Stats struct {
	Queries     int
	Sat         int
	Unsat       int
	Unknown     int
	Fallbacks   int
	FallbackOK  int
	Time        time.Duration
	FallbackDur time.Duration
	Restarts    int
	ByBackend   map[string]int
	ModelTime   time.Duration
	ModelCalls  int
}

// Solver is an incremental session with one primary solver process (z3 -in)
// plus one-shot fallbacks for queries the primary cannot decide.
type Solver struct {
	C         *Ctx
	Cmd       []string
	TimeoutMs int
	FbTimeout int // seconds for fallbacks
	Stats     Stats
	Log       io.Writer // optional transcript

	z3       *sproc // incremental z3 (bit-blasting): byte shuffling, equalities, UF
	cv       *sproc // incremental cvc5 --solve-bv-as-int=sum: mul/div/rem kernels
	last     *sproc // process that produced the last Sat answer
	stack    [][]*Term // assertion frames
	fbModel  map[string]*big.Int
	hardMemo map[int]bool
	Errors   []string // problems that left a query undecided
	Warnings []string // solver hiccups that were recovered from (process restarted, query re-decided)
	NoCvInt  bool
	cvFails  int

	// variables occurring in the asserted formulas (only those need get-value;
	// every other variable is unconstrained and reported as 0)
	visited   map[int]bool
	usedVars  map[string]bool
	frameUndo [][]undoVar
}

type undoVar struct {
	termID int
	name   string
}

func (s *Solver) noteVars(t *Term) {
	if s.visited == nil {
		s.visited = map[int]bool{}
		s.usedVars = map[string]bool{}
	}
	top := len(s.frameUndo) - 1
	var walk func(t *Term)
	walk = func(t *Term) {
		if s.visited[t.ID] {
			return
		}
		s.visited[t.ID] = true
		u := undoVar{termID: t.ID}
		if t.K == KVar && !s.usedVars[t.Name] {
			s.usedVars[t.Name] = true
			u.name = t.Name
		}
		if top >= 0 {
			s.frameUndo[top] = append(s.frameUndo[top], u)
		}
		for _, a := range t.Args {
			walk(a)
		}
	}
	walk(t)
}

// sproc is one live solver process mirroring the assertion stack.
type sproc struct {
	name string
	cmd  *exec.Cmd
	in   io.WriteCloser
	out  *bufio.Reader
	em   *emitter
	sent int
	log  io.Writer
}

func (p *sproc) send(line string) {
	if p.log != nil {
		fmt.Fprintln(p.log, line)
	}
	io.WriteString(p.in, line)
	io.WriteString(p.in, "\n")
	p.sent++
}

func (p *sproc) kill() {
	p.in.Close()
	p.cmd.Process.Kill()
	p.cmd.Wait()
}

func (p *sproc) readLine() string {
	line, err := p.out.ReadString('\n')
	if err != nil {
		return "(error \"solver died: " + err.Error() + "\")"
	}
	return strings.TrimSpace(line)
}

// readSexp reads one balanced s-expression (possibly spanning lines).
func (p *sproc) readSexp() string {
	var sb strings.Builder
	depth := 0
	started := false
	inBar := false
	for {
		line, err := p.out.ReadString('\n')
		if err != nil {
			return sb.String()
		}
		for _, ch := range line {
			switch {
			case ch == '|':
				inBar = !inBar
			case inBar:
			case ch == '(':
				depth++
				started = true
			case ch == ')':
				depth--
			}
		}
		sb.WriteString(line)
		if started && depth <= 0 {
			return sb.String()
		}
		if !started && strings.TrimSpace(line) != "" {
			return sb.String()
		}
	}
}

func (s *Solver) spawn(name string) *sproc {
	var cmd *exec.Cmd
	switch name {
	case "z3":
		// z3 5.1 (z3-new): its get-value is ~50x faster than 4.8.12 on paths with many
		// definitions; 4.8.12 stays in the one-shot portfolio as an independent back end
		cmd = exec.Command("z3-new", "-in", fmt.Sprintf("-t:%d", s.TimeoutMs))
	case "cvc5-int":
		// incremental mode weakens cvc5's non-linear preprocessing: queries it
		// does not decide quickly go to the one-shot portfolio instead
		to := 1200
		cmd = exec.Command("cvc5", "--incremental", "--solve-bv-as-int=sum", "--produce-models", fmt.Sprintf("--tlimit-per=%d", to))
	}
	in, _ := cmd.StdinPipe()
	out, _ := cmd.StdoutPipe()
	cmd.Stderr = os.Stderr
	if err := cmd.Start(); err != nil {
		panic("cannot start " + name + ": " + err.Error())
	}
	p := &sproc{name: name, cmd: cmd, in: in, out: bufio.NewReaderSize(out, 1<<20), log: s.Log}
	if d := os.Getenv("GOSX_SMTLOG"); d != "" && p.log == nil {
		os.MkdirAll(d, 0755)
		if f, err := os.Create(fmt.Sprintf("%s/%s-%d-%d.smt2", d, name, os.Getpid(), time.Now().UnixNano())); err == nil {
			p.log = f
		}
	}
	p.em = newEmitter(p.send)
	p.send("(set-option :global-declarations true)")
	p.send("(set-option :produce-models true)")
	if name != "z3" {
		p.send("(set-logic ALL)")
	}
	// replay the assertion stack
	for i, fr := range s.stack {
		if i > 0 {
			p.send("(push 1)")
		}
		for _, t := range fr {
			p.em.define(s.C, t)
			p.send("(assert " + ref(t) + ")")
		}
	}
	return p
}

func (s *Solver) procs() []*sproc {
	var ps []*sproc
	if s.z3 != nil {
		ps = append(ps, s.z3)
	}
	if s.cv != nil {
		ps = append(ps, s.cv)
	}
	return ps
}

func NewSolver(c *Ctx, timeoutMs int) *Solver {
	s := &Solver{C: c, TimeoutMs: timeoutMs, FbTimeout: 60}
	s.Stats.ByBackend = map[string]int{}
	s.stack = [][]*Term{nil}
	return s
}

func (s *Solver) Close() {
	for _, p := range s.procs() {
		p.kill()
	}
	s.z3, s.cv, s.last = nil, nil, nil
}

func (s *Solver) restart(p *sproc) {
	s.Stats.Restarts++
	p.kill()
	if s.last == p {
		s.last = nil
	}
	if p == s.z3 {
		s.z3 = s.spawn("z3")
	} else if p == s.cv {
		s.cv = s.spawn("cvc5-int")
	}
}

func (s *Solver) Push() {
	s.stack = append(s.stack, nil)
	s.frameUndo = append(s.frameUndo, nil)
	for _, p := range s.procs() {
		p.send("(push 1)")
	}
}

func (s *Solver) Pop() {
	s.stack = s.stack[:len(s.stack)-1]
	if n := len(s.frameUndo); n > 0 {
		for _, u := range s.frameUndo[n-1] {
			delete(s.visited, u.termID)
			if u.name != "" {
				delete(s.usedVars, u.name)
			}
		}
		s.frameUndo = s.frameUndo[:n-1]
	}
	for _, p := range s.procs() {
		p.send("(pop 1)")
	}
}

func (s *Solver) Depth() int { return len(s.stack) - 1 }

// PopTo pops until the stack depth is d, restarting the backend if it has
// accumulated many definitions.
func (s *Solver) PopTo(d int) {
	for s.Depth() > d {
		s.Pop()
	}
	for _, p := range s.procs() {
		if p.sent > 40000 {
			s.restart(p)
		}
	}
}

func (s *Solver) Assert(t *Term) {
	if t.IsTrue() {
		return
	}
	top := len(s.stack) - 1
	s.stack[top] = append(s.stack[top], t)
	s.noteVars(t)
	for _, p := range s.procs() {
		p.em.define(s.C, t)
		p.send("(assert " + ref(t) + ")")
	}
}

func (s *Solver) allAsserts(extra ...*Term) []*Term {
	var all []*Term
	for _, fr := range s.stack {
		all = append(all, fr...)
	}
	return append(all, extra...)
}

// Check decides satisfiability of the current stack.
func (s *Solver) Check() Result {
	s.fbModel = nil
	s.last = nil
	s.Stats.Queries++
	hard := s.stackHard()
	var p *sproc
	if hard && (s.NoCvInt || s.cvFails >= 3) {
		// the incremental integer solver keeps timing out on this worker's
		// queries: go straight to the one-shot portfolio
		r, _ := s.fallback(s.allAsserts(), nil)
		switch r {
		case Sat:
			s.Stats.Sat++
		case Unsat:
			s.Stats.Unsat++
		default:
			s.Stats.Unknown++
		}
		return r
	}
	if hard {
		// non-linear 64-bit arithmetic: bit-blasting stalls, the integer
		// translation decides these in milliseconds.
		if s.cv == nil {
			s.cv = s.spawn("cvc5-int")
		}
		p = s.cv
	} else {
		if s.z3 == nil {
			s.z3 = s.spawn("z3")
		}
		p = s.z3
	}
	t0 := time.Now()
	p.send("(check-sat)")
	line := p.readLine()
	bad := false
	for strings.HasPrefix(line, "(error") && !strings.Contains(line, "solver died") {
		s.Warnings = append(s.Warnings, p.name+": "+line)
		bad = true
		line = p.readLine()
	}
	s.Stats.Time += time.Since(t0)
	s.trace("check", p.name, line, time.Since(t0))
	if bad {
		line = "unknown" // an error line makes the query inconclusive
	}
	switch line {
	case "sat":
		if p == s.cv && !s.cvModelOK() {
			break
		}
		s.Stats.Sat++
		s.Stats.ByBackend[p.name]++
		s.last = p
		return Sat
	case "unsat":
		s.Stats.Unsat++
		s.Stats.ByBackend[p.name]++
		if p == s.cv && s.cvFails > 0 {
			s.cvFails--
		}
		return Unsat
	}
	if line != "unknown" && line != "timeout" && line != "sat" {
		s.Warnings = append(s.Warnings, p.name+": "+line)
	}
	if p == s.cv {
		s.cvFails++
	}
	// a timed-out or failed incremental solver is not trusted any further:
	// restart it (the assertion stack is replayed)
	s.restart(p)
	// fallback portfolio on the whole stack
	r, _ := s.fallback(s.allAsserts(), nil)
	switch r {
	case Sat:
		s.Stats.Sat++
	case Unsat:
		s.Stats.Unsat++
	default:
		s.Stats.Unknown++
	}
	return r
}

// cvModelOK fetches the model of a Sat answer from the bv-as-int solver and,
// when the query is free of uninterpreted functions, checks it against the
// original bit-vector assertions.
func (s *Solver) cvModelOK() bool {
	asserts := s.allAsserts()
	seen := map[int]bool{}
	var vars []*Term
	hasUF := false
	var walk func(t *Term)
	walk = func(t *Term) {
		if seen[t.ID] {
			return
		}
		seen[t.ID] = true
		switch t.K {
		case KVar:
			vars = append(vars, t)
		case KApp:
			hasUF = true
		}
		for _, a := range t.Args {
			walk(a)
		}
	}
	for _, t := range asserts {
		walk(t)
	}
	if hasUF {
		return true
	}
	m := map[string]*big.Int{}
	for i := 0; i < len(vars); i += 200 {
		j := i + 200
		if j > len(vars) {
			j = len(vars)
		}
		var names []string
		for _, v := range vars[i:j] {
			names = append(names, ref(v))
		}
		s.cv.send("(get-value (" + strings.Join(names, " ") + "))")
		txt := s.cv.readSexp()
		if strings.Contains(txt, "(error") {
			s.Errors = append(s.Errors, "cvc5-int get-value: "+txt)
			return false
		}
		parseValues(txt, m)
	}
	for _, t := range asserts {
		v := Eval(s.C, t, m)
		if v == nil || v.Sign() == 0 {
			s.Errors = append(s.Errors, "cvc5-int: model does not satisfy the bit-vector query")
			return false
		}
	}
	return true
}

// CheckWith decides satisfiability of stack ∧ t without changing the stack.
// If the answer is Sat and vars is non-empty, a model for vars is returned.
func (s *Solver) CheckWith(t *Term, vars []*Term) (Result, map[string]*big.Int) {
	if t.IsFalse() {
		return Unsat, nil
	}
	s.Push()
	s.Assert(t)
	r := s.Check()
	var m map[string]*big.Int
	if r == Sat && len(vars) > 0 {
		var err error
		m, err = s.Model(vars)
		if err != nil {
			s.Errors = append(s.Errors, err.Error())
			r = Unknown
		}
	}
	s.fbModel = nil
	s.Pop()
	return r, m
}

// Model returns values for vars after a Sat answer (from Check or CheckWith).
func (s *Solver) Model(vars []*Term) (map[string]*big.Int, error) {
	t0 := time.Now()
	defer func() { s.Stats.ModelTime += time.Since(t0); s.Stats.ModelCalls++ }()
	res := map[string]*big.Int{}
	if len(vars) == 0 {
		return res, nil
	}
	if s.fbModel != nil {
		for _, v := range vars {
			if v.K == KVar {
				if x, ok := s.fbModel[v.Name]; ok {
					res[v.Name] = x
				} else {
					res[v.Name] = new(big.Int)
				}
				continue
			}
			x := Eval(s.C, v, s.fbModel)
			if x == nil {
				return nil, fmt.Errorf("cannot evaluate term under fallback model")
			}
			res[RefName(v)] = x
		}
		return res, nil
	}
	if s.last == nil {
		return nil, fmt.Errorf("no model available")
	}
	// unconstrained variables need no query
	var ask []*Term
	for _, v := range vars {
		if v.K == KVar && !s.usedVars[v.Name] {
			res[v.Name] = new(big.Int)
			continue
		}
		ask = append(ask, v)
	}
	vars = ask
	for i := 0; i < len(vars); i += 200 {
		j := i + 200
		if j > len(vars) {
			j = len(vars)
		}
		var names []string
		for _, v := range vars[i:j] {
			s.last.em.define(s.C, v)
			names = append(names, ref(v))
		}
		s.last.send("(get-value (" + strings.Join(names, " ") + "))")
		txt := s.last.readSexp()
		if strings.Contains(txt, "(error") {
			return nil, fmt.Errorf("get-value: %s", txt)
		}
		parseValues(txt, res)
	}
	return res, nil
}

func (s *Solver) trace(kind, backend, res string, d time.Duration) {
	if traceOn {
		fmt.Fprintf(os.Stderr, "[smt] %-8s %-14s %-7s %6.2fs asserts=%d\n", kind, backend, res, d.Seconds(), len(s.allAsserts()))
	}
}

var traceOn = os.Getenv("GOSX_TRACE") != ""

// fbSem bounds the number of concurrently racing portfolios (each starts up
// to five solver processes).
var fbSem = make(chan struct{}, fbSlots())

func fbSlots() int {
	n := runtime.NumCPU() / 4
	if n < 2 {
		n = 2
	}
	return n
}

func (s *Solver) fallback(asserts []*Term, vars []*Term) (Result, map[string]*big.Int) {
	s.Stats.Fallbacks++
	fbSem <- struct{}{}
	defer func() { <-fbSem }()
	t0 := time.Now()
	defer func() { s.Stats.FallbackDur += time.Since(t0) }()
	script := Script(s.C, asserts, nil)
	// ask for all variables so that a model is available afterwards
	var names []string
	var allVars []*Term
	hasUF := strings.Contains(script, "(declare-fun ")
	for n, v := range s.C.Vars {
		if strings.Contains(script, quoteName(n)) {
			names = append(names, quoteName(n))
			allVars = append(allVars, v)
		}
	}
	if len(names) > 0 {
		script += "(get-value (" + strings.Join(names, " ") + "))\n"
	}
	dir, err := os.MkdirTemp("", "gosx-fb-")
	if err != nil {
		return Unknown, nil
	}
	defer os.RemoveAll(dir)
	bvFile := dir + "/q.smt2"
	os.WriteFile(bvFile, []byte(script), 0644)
	type backend struct {
		name    string
		args    []string
		intMode bool
	}
	tl := fmt.Sprintf("--tlimit=%d", s.FbTimeout*1000)
	backends := []backend{
		{"cvc5-bv-as-int", []string{"cvc5", "--solve-bv-as-int=sum", "--produce-models", tl, bvFile}, false},
		{"z3-4.8-bv", []string{"z3", fmt.Sprintf("-T:%d", s.FbTimeout), bvFile}, false},
		{"cvc5-bv", []string{"cvc5", "--produce-models", tl, bvFile}, false},
	}
	if is, ok := IntScript(s.C, asserts, allVars); ok {
		intFile := dir + "/qi.smt2"
		os.WriteFile(intFile, []byte(is), 0644)
		backends = append([]backend{
			{"gosx-int+z3", []string{"z3", fmt.Sprintf("-T:%d", s.FbTimeout), intFile}, true},
			{"gosx-int+cvc5", []string{"cvc5", "--produce-models", tl, intFile}, true},
		}, backends...)
	}
	type ans struct {
		b     backend
		first string
		txt   string
	}
	ch := make(chan ans, len(backends))
	var cmds []*exec.Cmd
	for _, b := range backends {
		cmd := exec.Command(b.args[0], b.args[1:]...)
		cmds = append(cmds, cmd)
		go func(cmd *exec.Cmd, b backend) {
			out, _ := cmd.CombinedOutput()
			txt := string(out)
			first := strings.TrimSpace(strings.SplitN(txt, "\n", 2)[0])
			ch <- ans{b, first, txt}
		}(cmd, b)
	}
	defer func() {
		for _, c := range cmds {
			if c.Process != nil {
				c.Process.Kill()
			}
		}
	}()
	for range backends {
		a := <-ch
		if strings.Contains(a.txt, "(error") && a.first != "unsat" {
			s.Warnings = append(s.Warnings, a.b.name+": "+firstErr(a.txt))
			continue
		}
		switch a.first {
		case "unsat":
			s.Stats.FallbackOK++
			s.Stats.ByBackend[a.b.name]++
			s.trace("fallback", a.b.name, "unsat", time.Since(t0))
			return Unsat, nil
		case "sat":
			m := map[string]*big.Int{}
			if i := strings.Index(a.txt, "\n"); i >= 0 {
				parseValues(a.txt[i+1:], m)
			}
			if a.b.intMode {
				// the integer translation is only trusted for sat after the
				// model satisfies the original bit-vector assertions
				if hasUF {
					continue
				}
				good := true
				for _, t := range asserts {
					v := Eval(s.C, t, m)
					if v == nil || v.Sign() == 0 {
						good = false
						break
					}
				}
				if !good {
					s.Warnings = append(s.Warnings, a.b.name+": model does not satisfy the bit-vector query")
					continue
				}
			}
			s.Stats.FallbackOK++
			s.Stats.ByBackend[a.b.name]++
			s.fbModel = m
			s.trace("fallback", a.b.name, "sat", time.Since(t0))
			return Sat, m
		}
	}
	s.trace("fallback", "all", "unknown", time.Since(t0))
	if d := os.Getenv("GOSX_DUMP"); d != "" {
		os.MkdirAll(d, 0755)
		os.WriteFile(fmt.Sprintf("%s/unknown-%d.smt2", d, time.Now().UnixNano()), []byte(script), 0644)
	}
	return Unknown, nil
}

func firstErr(txt string) string {
	for _, l := range strings.Split(txt, "\n") {
		if strings.Contains(l, "(error") {
			return l
		}
	}
	return ""
}

// parseValues parses "((name value) (name value) ...)" into res.
func parseValues(txt string, res map[string]*big.Int) {
	toks := tokenize(txt)
	// pattern: ( name value )  where value is one token or ( _ bvN W )
	for i := 0; i < len(toks); i++ {
		if toks[i] != "(" || i+2 >= len(toks) {
			continue
		}
		name := toks[i+1]
		if name == "(" || name == ")" {
			continue
		}
		name = strings.Trim(name, "|")
		v := toks[i+2]
		switch {
		case v == "true":
			res[name] = big.NewInt(1)
		case v == "false":
			res[name] = big.NewInt(0)
		case strings.HasPrefix(v, "#x"):
			x, ok := new(big.Int).SetString(v[2:], 16)
			if ok {
				res[name] = x
			}
		case strings.HasPrefix(v, "#b"):
			x, ok := new(big.Int).SetString(v[2:], 2)
			if ok {
				res[name] = x
			}
		case len(v) > 0 && v[0] >= '0' && v[0] <= '9':
			x, ok := new(big.Int).SetString(v, 10)
			if ok {
				res[name] = x
			}
		case v == "(" && i+4 < len(toks) && toks[i+3] == "_" && strings.HasPrefix(toks[i+4], "bv"):
			x, ok := new(big.Int).SetString(toks[i+4][2:], 10)
			if ok {
				res[name] = x
			}
		}
	}
}

func tokenize(s string) []string {
	var toks []string
	i := 0
	for i < len(s) {
		ch := s[i]
		switch {
		case ch == '(' || ch == ')':
			toks = append(toks, string(ch))
			i++
		case ch == ' ' || ch == '\n' || ch == '\t' || ch == '\r':
			i++
		case ch == '|':
			j := i + 1
			for j < len(s) && s[j] != '|' {
				j++
			}
			toks = append(toks, s[i:j+1])
			i = j + 1
		default:
			j := i
			for j < len(s) && !strings.ContainsRune("() \n\t\r", rune(s[j])) {
				j++
			}
			toks = append(toks, s[i:j])
			i = j
		}
	}
	return toks
}

// hardTerm reports whether t contains wide non-linear arithmetic (a product,
// quotient or remainder of width >= 32 that is not by a power of two).
func (s *Solver) hardTerm(t *Term) bool {
	if s.hardMemo == nil {
		s.hardMemo = map[int]bool{}
	}
	if v, ok := s.hardMemo[t.ID]; ok {
		return v
	}
	s.hardMemo[t.ID] = false
	h := false
	switch t.K {
	case KMul, KUDiv, KURem, KSDiv, KSRem:
		if t.W >= 32 {
			a, b := t.Args[0], t.Args[1]
			switch {
			case a.K == KConst && isPow2(a.Val), b.K == KConst && isPow2(b.Val):
			case t.K == KMul && (a.K == KConst || b.K == KConst) && t.W <= 64:
				// multiplication by a constant bit-blasts into a few shifted additions
				if c := constOf(a, b); c.BitLen() > 20 {
					h = true
				}
			case t.K != KMul && b.K == KConst && b.Val.BitLen() <= 12:
				// division / remainder by a small constant is cheap for the bit-blaster
			default:
				h = true
			}
		}
	}
	if !h {
		for _, a := range t.Args {
			if s.hardTerm(a) {
				h = true
				break
			}
		}
	}
	s.hardMemo[t.ID] = h
	return h
}

func constOf(a, b *Term) *big.Int {
	if a.K == KConst {
		return a.Val
	}
	return b.Val
}

func isPow2(v *big.Int) bool {
	return v.Sign() > 0 && new(big.Int).And(v, new(big.Int).Sub(v, big.NewInt(1))).Sign() == 0
}

func (s *Solver) stackHard() bool {
	for _, fr := range s.stack {
		for _, t := range fr {
			if s.hardTerm(t) {
				return true
			}
		}
	}
	return false
}
