// Package smt is a small hash-consed term library for bit-vector / Bool / UF
// formulas with an SMT-LIB2 printer and a simplifier that keeps concrete
// computations concrete.
package smt

import (
	"fmt"
	"math/big"
	"strconv"
)

type Kind uint8

const (
	KConst Kind = iota
	KVar
	KApp // uninterpreted function application
	KNot
	KAnd
	KOr
	KIte
	KEq
	KUlt
	KUle
	KSlt
	KSle
	KAdd
	KSub
	KMul
	KUDiv
	KURem
	KSDiv
	KSRem
	KBAnd
	KBOr
	KBXor
	KBNot
	KNeg
	KShl
	KLshr
	KAshr
	KConcat
	KExtract
	KZExt
	KSExt
)

var kindName = map[Kind]string{
	KNot: "not", KAnd: "and", KOr: "or", KIte: "ite", KEq: "=",
	KUlt: "bvult", KUle: "bvule", KSlt: "bvslt", KSle: "bvsle",
	KAdd: "bvadd", KSub: "bvsub", KMul: "bvmul", KUDiv: "bvudiv", KURem: "bvurem",
	KSDiv: "bvsdiv", KSRem: "bvsrem", KBAnd: "bvand", KBOr: "bvor", KBXor: "bvxor",
	KBNot: "bvnot", KNeg: "bvneg", KShl: "bvshl", KLshr: "bvlshr", KAshr: "bvashr",
	KConcat: "concat",
}

// Term is an immutable DAG node. W == 0 means sort Bool, otherwise (_ BitVec W).
type Term struct {
	ID   int
	K    Kind
	W    int
	Args []*Term
	Val  *big.Int // KConst
	Name string   // KVar, KApp
	Hi   int      // KExtract hi; KZExt/KSExt: number of added bits
	Lo   int      // KExtract lo
}

func (t *Term) IsBool() bool  { return t.W == 0 }
func (t *Term) IsConst() bool { return t.K == KConst }
func (t *Term) IsTrue() bool  { return t.K == KConst && t.W == 0 && t.Val.Sign() != 0 }
func (t *Term) IsFalse() bool { return t.K == KConst && t.W == 0 && t.Val.Sign() == 0 }

// Uint64 returns the value of a constant that fits in 64 bits.
func (t *Term) Uint64() uint64 { return t.Val.Uint64() }

// Int64 interprets a constant as a signed value of its width.
func (t *Term) Int64() int64 {
	v := new(big.Int).Set(t.Val)
	if t.W > 0 && v.Bit(t.W-1) == 1 {
		v.Sub(v, new(big.Int).Lsh(big.NewInt(1), uint(t.W)))
	}
	return v.Int64()
}

// Ctx owns the hash-consing table. Not safe for concurrent use.
type Ctx struct {
	consts map[constKey]*Term
	keyBuf []byte
	tab    map[string]*Term
	nextID int
	Vars   map[string]*Term
	UFs    map[string]*UFDecl
	tt, ff *Term
}

type UFDecl struct {
	Name string
	Args []int // widths (0 = Bool)
	Ret  int
}

func NewCtx() *Ctx {
	c := &Ctx{consts: map[constKey]*Term{}, tab: map[string]*Term{}, Vars: map[string]*Term{}, UFs: map[string]*UFDecl{}}
	c.tt = c.mk(&Term{K: KConst, W: 0, Val: big.NewInt(1)})
	c.ff = c.mk(&Term{K: KConst, W: 0, Val: big.NewInt(0)})
	return c
}

func (c *Ctx) NumTerms() int { return c.nextID }

func (c *Ctx) NumConsts() int { return len(c.consts) }

// TableSize is the number of hash-consed non-constant entries.
func (c *Ctx) TableSize() int { return len(c.tab) }

// Prune forgets every compound term (they are garbage once a path has ended);
// constants and variables are kept, ids are never reused.
func (c *Ctx) Prune() {
	nt := make(map[string]*Term, 1024)
	for k, t := range c.tab {
		if t.K == KConst || t.K == KVar {
			nt[k] = t
		}
	}
	c.tab = nt
}

func (c *Ctx) key(t *Term) string {
	buf := c.keyBuf[:0]
	buf = strconv.AppendInt(buf, int64(t.K), 10)
	buf = append(buf, ':')
	buf = strconv.AppendInt(buf, int64(t.W), 10)
	buf = append(buf, ':')
	switch t.K {
	case KConst:
		buf = t.Val.Append(buf, 16)
	case KVar:
		buf = append(buf, t.Name...)
	case KApp:
		buf = append(buf, t.Name...)
		buf = append(buf, ':')
	case KExtract:
		buf = strconv.AppendInt(buf, int64(t.Hi), 10)
		buf = append(buf, ':')
		buf = strconv.AppendInt(buf, int64(t.Lo), 10)
		buf = append(buf, ':')
	case KZExt, KSExt:
		buf = strconv.AppendInt(buf, int64(t.Hi), 10)
		buf = append(buf, ':')
	}
	for _, a := range t.Args {
		buf = strconv.AppendInt(buf, int64(a.ID), 10)
		buf = append(buf, ',')
	}
	c.keyBuf = buf
	return string(buf)
}

func (c *Ctx) mk(t *Term) *Term {
	k := c.key(t)
	if e, ok := c.tab[k]; ok {
		return e
	}
	t.ID = c.nextID
	c.nextID++
	c.tab[k] = t
	return t
}

type constKey struct {
	w int
	v uint64
}

func mask(w int) *big.Int {
	m := new(big.Int).Lsh(big.NewInt(1), uint(w))
	return m.Sub(m, big.NewInt(1))
}

func norm(v *big.Int, w int) *big.Int {
	r := new(big.Int).And(v, mask(w))
	return r
}

func signed(v *big.Int, w int) *big.Int {
	r := new(big.Int).Set(v)
	if r.Bit(w-1) == 1 {
		r.Sub(r, new(big.Int).Lsh(big.NewInt(1), uint(w)))
	}
	return r
}

func (c *Ctx) True() *Term  { return c.tt }
func (c *Ctx) False() *Term { return c.ff }
func (c *Ctx) Bool(b bool) *Term {
	if b {
		return c.tt
	}
	return c.ff
}

// BV makes a constant of width w from v (reduced mod 2^w; negative allowed).
func (c *Ctx) BV(v *big.Int, w int) *Term {
	if w <= 0 {
		panic("smt: BV width")
	}
	if w <= 64 && v.Sign() >= 0 && v.IsUint64() {
		return c.BVu(v.Uint64(), w)
	}
	n := norm(v, w)
	if w <= 64 {
		return c.BVu(n.Uint64(), w)
	}
	return c.mk(&Term{K: KConst, W: w, Val: n})
}

// BVu makes a constant from an unsigned 64-bit value (fast path: its own table).
func (c *Ctx) BVu(v uint64, w int) *Term {
	if w <= 0 {
		panic("smt: BV width")
	}
	if w > 64 {
		return c.mk(&Term{K: KConst, W: w, Val: new(big.Int).SetUint64(v)})
	}
	if w < 64 {
		v &= (uint64(1) << uint(w)) - 1
	}
	k := constKey{w, v}
	if t, ok := c.consts[k]; ok {
		return t
	}
	t := &Term{K: KConst, W: w, Val: new(big.Int).SetUint64(v), ID: c.nextID}
	c.nextID++
	c.consts[k] = t
	return t
}
func (c *Ctx) BVi(v int64, w int) *Term  { return c.BV(big.NewInt(v), w) }

func (c *Ctx) Var(name string, w int) *Term {
	if t, ok := c.Vars[name]; ok {
		if t.W != w {
			panic(fmt.Sprintf("smt: var %s redeclared with width %d (was %d)", name, w, t.W))
		}
		return t
	}
	t := c.mk(&Term{K: KVar, W: w, Name: name})
	c.Vars[name] = t
	return t
}

func (c *Ctx) App(name string, ret int, args ...*Term) *Term {
	d, ok := c.UFs[name]
	if !ok {
		d = &UFDecl{Name: name, Ret: ret}
		for _, a := range args {
			d.Args = append(d.Args, a.W)
		}
		c.UFs[name] = d
	} else {
		if d.Ret != ret || len(d.Args) != len(args) {
			panic("smt: UF " + name + " used with different signature")
		}
		for i, a := range args {
			if d.Args[i] != a.W {
				panic("smt: UF " + name + " used with different arg sorts")
			}
		}
	}
	return c.mk(&Term{K: KApp, W: ret, Name: name, Args: args})
}

func (c *Ctx) Not(a *Term) *Term {
	if a.W != 0 {
		panic("smt: Not on bv")
	}
	if a.K == KConst {
		return c.Bool(a.Val.Sign() == 0)
	}
	if a.K == KNot {
		return a.Args[0]
	}
	return c.mk(&Term{K: KNot, Args: []*Term{a}})
}

func (c *Ctx) And(a, b *Term) *Term {
	if a.IsFalse() || b.IsFalse() {
		return c.ff
	}
	if a.IsTrue() {
		return b
	}
	if b.IsTrue() {
		return a
	}
	if a == b {
		return a
	}
	if (a.K == KNot && a.Args[0] == b) || (b.K == KNot && b.Args[0] == a) {
		return c.ff
	}
	return c.mk(&Term{K: KAnd, Args: []*Term{a, b}})
}

func (c *Ctx) Or(a, b *Term) *Term {
	if a.IsTrue() || b.IsTrue() {
		return c.tt
	}
	if a.IsFalse() {
		return b
	}
	if b.IsFalse() {
		return a
	}
	if a == b {
		return a
	}
	if (a.K == KNot && a.Args[0] == b) || (b.K == KNot && b.Args[0] == a) {
		return c.tt
	}
	return c.mk(&Term{K: KOr, Args: []*Term{a, b}})
}

func (c *Ctx) AndN(ts ...*Term) *Term {
	r := c.tt
	for _, t := range ts {
		r = c.And(r, t)
	}
	return r
}
func (c *Ctx) OrN(ts ...*Term) *Term {
	r := c.ff
	for _, t := range ts {
		r = c.Or(r, t)
	}
	return r
}
func (c *Ctx) Implies(a, b *Term) *Term { return c.Or(c.Not(a), b) }

func (c *Ctx) Ite(cond, a, b *Term) *Term {
	if a.W != b.W {
		panic("smt: ite width mismatch")
	}
	if cond.IsTrue() {
		return a
	}
	if cond.IsFalse() {
		return b
	}
	if a == b {
		return a
	}
	if a.W == 0 {
		if a.IsTrue() && b.IsFalse() {
			return cond
		}
		if a.IsFalse() && b.IsTrue() {
			return c.Not(cond)
		}
		if a.IsTrue() {
			return c.Or(cond, b)
		}
		if a.IsFalse() {
			return c.And(c.Not(cond), b)
		}
		if b.IsTrue() {
			return c.Or(c.Not(cond), a)
		}
		if b.IsFalse() {
			return c.And(cond, a)
		}
	}
	return c.mk(&Term{K: KIte, W: a.W, Args: []*Term{cond, a, b}})
}

func (c *Ctx) Eq(a, b *Term) *Term {
	if a.W != b.W {
		panic(fmt.Sprintf("smt: eq width mismatch %d vs %d", a.W, b.W))
	}
	if a == b {
		return c.tt
	}
	if a.K == KConst && b.K == KConst {
		return c.Bool(a.Val.Cmp(b.Val) == 0)
	}
	if a.W == 0 {
		if a.K == KConst {
			a, b = b, a
		}
		if b.IsTrue() {
			return a
		}
		if b.IsFalse() {
			return c.Not(a)
		}
	}
	// ite(c, k1, k2) == k  with constants folds to c / not c / false / true
	if b.K == KConst && a.K == KIte && a.Args[1].K == KConst && a.Args[2].K == KConst {
		t1 := a.Args[1].Val.Cmp(b.Val) == 0
		t2 := a.Args[2].Val.Cmp(b.Val) == 0
		switch {
		case t1 && t2:
			return c.tt
		case t1:
			return a.Args[0]
		case t2:
			return c.Not(a.Args[0])
		default:
			return c.ff
		}
	}
	if a.K == KConst && b.K == KIte {
		return c.Eq(b, a)
	}
	// zext(x) == const
	if b.K == KConst && a.K == KZExt {
		x := a.Args[0]
		if b.Val.BitLen() > x.W {
			return c.ff
		}
		return c.Eq(x, c.BV(b.Val, x.W))
	}
	if a.K == KConst && b.K == KZExt {
		return c.Eq(b, a)
	}
	if a.ID > b.ID {
		a, b = b, a
	}
	return c.mk(&Term{K: KEq, Args: []*Term{a, b}})
}

func (c *Ctx) cmp(k Kind, a, b *Term) *Term {
	if a.W != b.W || a.W == 0 {
		panic("smt: cmp width mismatch")
	}
	if a.K == KConst && b.K == KConst {
		var r int
		if k == KUlt || k == KUle {
			r = a.Val.Cmp(b.Val)
		} else {
			r = signed(a.Val, a.W).Cmp(signed(b.Val, b.W))
		}
		if k == KUlt || k == KSlt {
			return c.Bool(r < 0)
		}
		return c.Bool(r <= 0)
	}
	if a == b {
		return c.Bool(k == KUle || k == KSle)
	}
	if k == KUlt && b.K == KConst && b.Val.Sign() == 0 {
		return c.ff
	}
	if k == KUle && a.K == KConst && a.Val.Sign() == 0 {
		return c.tt
	}
	if k == KUle && b.K == KConst && b.Val.Cmp(mask(b.W)) == 0 {
		return c.tt
	}
	// unsigned compare of zext(x) against a constant >= 2^w(x)
	if (k == KUlt || k == KUle) && a.K == KZExt && b.K == KConst && b.Val.BitLen() > a.Args[0].W {
		return c.tt
	}
	return c.mk(&Term{K: k, Args: []*Term{a, b}})
}
func (c *Ctx) Ult(a, b *Term) *Term { return c.cmp(KUlt, a, b) }
func (c *Ctx) Ule(a, b *Term) *Term { return c.cmp(KUle, a, b) }
func (c *Ctx) Slt(a, b *Term) *Term { return c.cmp(KSlt, a, b) }
func (c *Ctx) Sle(a, b *Term) *Term { return c.cmp(KSle, a, b) }
func (c *Ctx) Ugt(a, b *Term) *Term { return c.cmp(KUlt, b, a) }
func (c *Ctx) Uge(a, b *Term) *Term { return c.cmp(KUle, b, a) }
func (c *Ctx) Sgt(a, b *Term) *Term { return c.cmp(KSlt, b, a) }
func (c *Ctx) Sge(a, b *Term) *Term { return c.cmp(KSle, b, a) }

func (c *Ctx) bin(k Kind, a, b *Term) *Term {
	if a.W != b.W || a.W == 0 {
		panic(fmt.Sprintf("smt: binop %s width mismatch %d vs %d", kindName[k], a.W, b.W))
	}
	w := a.W
	if a.K == KConst && b.K == KConst {
		if r := foldBin(k, a.Val, b.Val, w); r != nil {
			return c.BV(r, w)
		}
	}
	isZero := func(t *Term) bool { return t.K == KConst && t.Val.Sign() == 0 }
	isOne := func(t *Term) bool { return t.K == KConst && t.Val.Cmp(big.NewInt(1)) == 0 }
	isOnes := func(t *Term) bool { return t.K == KConst && t.Val.Cmp(mask(w)) == 0 }
	switch k {
	case KAdd:
		if isZero(a) {
			return b
		}
		if isZero(b) {
			return a
		}
		if a.K == KConst {
			a, b = b, a
		}
		if b.K == KConst && a.K == KAdd && a.Args[1].K == KConst {
			return c.bin(KAdd, a.Args[0], c.BV(new(big.Int).Add(a.Args[1].Val, b.Val), w))
		}
		if b.K != KConst && a.ID > b.ID {
			a, b = b, a
		}
	case KSub:
		if isZero(b) {
			return a
		}
		if a == b {
			return c.BVu(0, w)
		}
		if b.K == KConst {
			return c.bin(KAdd, a, c.BV(new(big.Int).Neg(b.Val), w))
		}
	case KMul:
		if isZero(a) || isZero(b) {
			return c.BVu(0, w)
		}
		if isOne(a) {
			return b
		}
		if isOne(b) {
			return a
		}
		if a.K == KConst {
			a, b = b, a
		}
		if b.K != KConst && a.ID > b.ID {
			a, b = b, a
		}
	case KUDiv:
		if isOne(b) {
			return a
		}
	case KURem:
		if isOne(b) {
			return c.BVu(0, w)
		}
	case KBAnd:
		if isZero(a) || isZero(b) {
			return c.BVu(0, w)
		}
		if isOnes(a) {
			return b
		}
		if isOnes(b) {
			return a
		}
		if a == b {
			return a
		}
		if a.K == KConst {
			a, b = b, a
		}
		// x & (2^k-1)  ->  zext(extract(k-1,0,x))
		if b.K == KConst {
			bl := b.Val.BitLen()
			if bl < w && b.Val.Cmp(mask(bl)) == 0 {
				return c.ZExt(c.Extract(a, bl-1, 0), w-bl)
			}
		}
		if b.K != KConst && a.ID > b.ID {
			a, b = b, a
		}
	case KBOr:
		if isZero(a) {
			return b
		}
		if isZero(b) {
			return a
		}
		if isOnes(a) || isOnes(b) {
			return c.BV(mask(w), w)
		}
		if a == b {
			return a
		}
		if r := c.orDisjoint(a, b); r != nil {
			return r
		}
		if a.K == KConst {
			a, b = b, a
		}
		if b.K != KConst && a.ID > b.ID {
			a, b = b, a
		}
	case KBXor:
		if isZero(a) {
			return b
		}
		if isZero(b) {
			return a
		}
		if a == b {
			return c.BVu(0, w)
		}
		if a.K == KConst {
			a, b = b, a
		}
		if b.K != KConst && a.ID > b.ID {
			a, b = b, a
		}
	case KShl:
		if isZero(a) || isZero(b) {
			return a
		}
		if b.K == KConst {
			if b.Val.Cmp(big.NewInt(int64(w))) >= 0 {
				return c.BVu(0, w)
			}
			k := int(b.Val.Int64())
			return c.Concat(c.Extract(a, w-k-1, 0), c.BVu(0, k))
		}
	case KLshr:
		if isZero(a) || isZero(b) {
			return a
		}
		if b.K == KConst {
			if b.Val.Cmp(big.NewInt(int64(w))) >= 0 {
				return c.BVu(0, w)
			}
			k := int(b.Val.Int64())
			return c.ZExt(c.Extract(a, w-1, k), k)
		}
	case KAshr:
		if isZero(a) || isZero(b) {
			return a
		}
		if b.K == KConst {
			k := w - 1
			if b.Val.Cmp(big.NewInt(int64(w))) < 0 {
				k = int(b.Val.Int64())
			}
			return c.SExt(c.Extract(a, w-1, k), k)
		}
	}
	return c.mk(&Term{K: k, W: w, Args: []*Term{a, b}})
}

func foldBin(k Kind, a, b *big.Int, w int) *big.Int {
	r := new(big.Int)
	switch k {
	case KAdd:
		return r.Add(a, b)
	case KSub:
		return r.Sub(a, b)
	case KMul:
		return r.Mul(a, b)
	case KUDiv:
		if b.Sign() == 0 {
			return mask(w)
		}
		return r.Quo(a, b)
	case KURem:
		if b.Sign() == 0 {
			return r.Set(a)
		}
		return r.Rem(a, b)
	case KSDiv:
		sa, sb := signed(a, w), signed(b, w)
		if sb.Sign() == 0 {
			if sa.Sign() < 0 {
				return big.NewInt(1)
			}
			return mask(w)
		}
		return r.Quo(sa, sb)
	case KSRem:
		sa, sb := signed(a, w), signed(b, w)
		if sb.Sign() == 0 {
			return r.Set(a)
		}
		return r.Rem(sa, sb)
	case KBAnd:
		return r.And(a, b)
	case KBOr:
		return r.Or(a, b)
	case KBXor:
		return r.Xor(a, b)
	case KShl:
		if b.Cmp(big.NewInt(int64(w))) >= 0 {
			return r
		}
		return r.Lsh(a, uint(b.Int64()))
	case KLshr:
		if b.Cmp(big.NewInt(int64(w))) >= 0 {
			return r
		}
		return r.Rsh(a, uint(b.Int64()))
	case KAshr:
		sa := signed(a, w)
		s := uint(w)
		if b.Cmp(big.NewInt(int64(w))) < 0 {
			s = uint(b.Int64())
		}
		return r.Rsh(sa, s)
	}
	return nil
}

func (c *Ctx) Add(a, b *Term) *Term  { return c.bin(KAdd, a, b) }
func (c *Ctx) Sub(a, b *Term) *Term  { return c.bin(KSub, a, b) }
func (c *Ctx) Mul(a, b *Term) *Term  { return c.bin(KMul, a, b) }
func (c *Ctx) UDiv(a, b *Term) *Term { return c.bin(KUDiv, a, b) }
func (c *Ctx) URem(a, b *Term) *Term { return c.bin(KURem, a, b) }
func (c *Ctx) SDiv(a, b *Term) *Term { return c.bin(KSDiv, a, b) }
func (c *Ctx) SRem(a, b *Term) *Term { return c.bin(KSRem, a, b) }
func (c *Ctx) BAnd(a, b *Term) *Term { return c.bin(KBAnd, a, b) }
func (c *Ctx) BOr(a, b *Term) *Term  { return c.bin(KBOr, a, b) }
func (c *Ctx) BXor(a, b *Term) *Term { return c.bin(KBXor, a, b) }
func (c *Ctx) Shl(a, b *Term) *Term  { return c.bin(KShl, a, b) }
func (c *Ctx) Lshr(a, b *Term) *Term { return c.bin(KLshr, a, b) }
func (c *Ctx) Ashr(a, b *Term) *Term { return c.bin(KAshr, a, b) }

func (c *Ctx) BNot(a *Term) *Term {
	if a.K == KConst {
		return c.BV(new(big.Int).Xor(a.Val, mask(a.W)), a.W)
	}
	if a.K == KBNot {
		return a.Args[0]
	}
	return c.mk(&Term{K: KBNot, W: a.W, Args: []*Term{a}})
}

func (c *Ctx) Neg(a *Term) *Term {
	if a.K == KConst {
		return c.BV(new(big.Int).Neg(a.Val), a.W)
	}
	return c.mk(&Term{K: KNeg, W: a.W, Args: []*Term{a}})
}

// Concat: a is the high part.
func (c *Ctx) Concat(a, b *Term) *Term {
	if a.W == 0 || b.W == 0 {
		panic("smt: concat bool")
	}
	w := a.W + b.W
	if a.K == KConst && b.K == KConst {
		v := new(big.Int).Lsh(a.Val, uint(b.W))
		v.Or(v, b.Val)
		return c.BV(v, w)
	}
	// zero high part: zext
	if a.K == KConst && a.Val.Sign() == 0 {
		return c.ZExt(b, a.W)
	}
	// adjacent extracts of the same term
	if a.K == KExtract && b.K == KExtract && a.Args[0] == b.Args[0] && a.Lo == b.Hi+1 {
		return c.Extract(a.Args[0], a.Hi, b.Lo)
	}
	// concat(x, concat(y, z)) with x,y adjacent extracts
	if a.K == KExtract && b.K == KConcat && b.Args[0].K == KExtract &&
		a.Args[0] == b.Args[0].Args[0] && a.Lo == b.Args[0].Hi+1 {
		return c.Concat(c.Extract(a.Args[0], a.Hi, b.Args[0].Lo), b.Args[1])
	}
	// concat(concat(x, y), z) with y,z adjacent extracts
	if b.K == KExtract && a.K == KConcat && a.Args[1].K == KExtract &&
		b.Args[0] == a.Args[1].Args[0] && a.Args[1].Lo == b.Hi+1 {
		return c.Concat(a.Args[0], c.Extract(b.Args[0], a.Args[1].Hi, b.Lo))
	}
	// concat(zext(x), y) stays; concat(concat(0,x),y) handled via zext form
	return c.mk(&Term{K: KConcat, W: w, Args: []*Term{a, b}})
}

func (c *Ctx) Extract(a *Term, hi, lo int) *Term {
	if hi < lo || lo < 0 || hi >= a.W {
		panic(fmt.Sprintf("smt: extract [%d:%d] of width %d", hi, lo, a.W))
	}
	w := hi - lo + 1
	if w == a.W {
		return a
	}
	switch a.K {
	case KConst:
		v := new(big.Int).Rsh(a.Val, uint(lo))
		return c.BV(v, w)
	case KExtract:
		return c.Extract(a.Args[0], a.Lo+hi, a.Lo+lo)
	case KConcat:
		h, l := a.Args[0], a.Args[1]
		if hi < l.W {
			return c.Extract(l, hi, lo)
		}
		if lo >= l.W {
			return c.Extract(h, hi-l.W, lo-l.W)
		}
		return c.Concat(c.Extract(h, hi-l.W, 0), c.Extract(l, l.W-1, lo))
	case KZExt:
		x := a.Args[0]
		if hi < x.W {
			return c.Extract(x, hi, lo)
		}
		if lo >= x.W {
			return c.BVu(0, w)
		}
		return c.ZExt(c.Extract(x, x.W-1, lo), hi-x.W+1)
	case KSExt:
		x := a.Args[0]
		if hi < x.W {
			return c.Extract(x, hi, lo)
		}
	case KIte:
		if a.Args[1].K == KConst && a.Args[2].K == KConst {
			return c.Ite(a.Args[0], c.Extract(a.Args[1], hi, lo), c.Extract(a.Args[2], hi, lo))
		}
	case KBAnd, KBOr, KBXor:
		// push extraction through bitwise ops when one side is constant or
		// both are concat-shaped: keeps byte shuffles syntactic.
		if a.Args[0].K == KConst || a.Args[1].K == KConst || (shaped(a.Args[0]) && shaped(a.Args[1])) {
			return c.bin(a.K, c.Extract(a.Args[0], hi, lo), c.Extract(a.Args[1], hi, lo))
		}
	case KAdd, KSub, KMul:
		// low bits of modular arithmetic only depend on low bits. For products
		// of two non-constants the wide product is kept (one product term is
		// much easier for the integer translation than two of different widths).
		if a.K == KMul && a.Args[0].K != KConst && a.Args[1].K != KConst {
			break
		}
		if lo == 0 && (a.Args[0].K == KZExt || a.Args[1].K == KZExt || a.Args[0].K == KConst || a.Args[1].K == KConst) {
			x, y := c.Extract(a.Args[0], hi, 0), c.Extract(a.Args[1], hi, 0)
			return c.bin(a.K, x, y)
		}
	}
	return c.mk(&Term{K: KExtract, W: w, Args: []*Term{a}, Hi: hi, Lo: lo})
}

func shaped(t *Term) bool {
	switch t.K {
	case KConst, KConcat, KZExt, KExtract:
		return true
	}
	return false
}

func (c *Ctx) ZExt(a *Term, k int) *Term {
	if k == 0 {
		return a
	}
	if k < 0 {
		panic("smt: zext negative")
	}
	if a.K == KConst {
		return c.BV(a.Val, a.W+k)
	}
	if a.K == KZExt {
		return c.ZExt(a.Args[0], a.Hi+k)
	}
	return c.mk(&Term{K: KZExt, W: a.W + k, Args: []*Term{a}, Hi: k})
}

func (c *Ctx) SExt(a *Term, k int) *Term {
	if k == 0 {
		return a
	}
	if a.K == KConst {
		return c.BV(signed(a.Val, a.W), a.W+k)
	}
	if a.K == KZExt {
		return c.ZExt(a.Args[0], a.Hi+k)
	}
	if a.K == KSExt {
		return c.SExt(a.Args[0], a.Hi+k)
	}
	return c.mk(&Term{K: KSExt, W: a.W + k, Args: []*Term{a}, Hi: k})
}

// Resize converts a to width w (truncate or extend, signed selects sign extension).
func (c *Ctx) Resize(a *Term, w int, sgn bool) *Term {
	switch {
	case a.W == w:
		return a
	case a.W > w:
		return c.Extract(a, w-1, 0)
	case sgn:
		return c.SExt(a, w-a.W)
	default:
		return c.ZExt(a, w-a.W)
	}
}

// segment view used to merge ORs of disjoint shifted bytes into a concat.
type seg struct {
	t    *Term // nil = zero bits
	w    int
	zero bool
}

func (c *Ctx) segments(t *Term, out []seg) []seg {
	switch t.K {
	case KConst:
		if t.Val.Sign() == 0 {
			return append(out, seg{w: t.W, zero: true})
		}
		return append(out, seg{t: t, w: t.W})
	case KConcat:
		out = c.segments(t.Args[0], out)
		return c.segments(t.Args[1], out)
	case KZExt:
		out = append(out, seg{w: t.Hi, zero: true})
		return c.segments(t.Args[0], out)
	}
	return append(out, seg{t: t, w: t.W})
}

// orDisjoint returns a|b as a concat if at every bit position at most one side
// is non-zero and the segment boundaries are compatible; nil otherwise.
func (c *Ctx) orDisjoint(a, b *Term) *Term {
	if !(a.K == KConcat || a.K == KZExt) || !(b.K == KConcat || b.K == KZExt) {
		return nil
	}
	sa := c.segments(a, nil)
	sb := c.segments(b, nil)
	var parts []*Term
	i, j := 0, 0
	for i < len(sa) && j < len(sb) {
		x, y := sa[i], sb[j]
		w := x.w
		if y.w < w {
			w = y.w
		}
		var piece *Term
		switch {
		case x.zero && y.zero:
			piece = c.BVu(0, w)
		case x.zero:
			if w != y.w {
				// need the high w bits of y's term
				piece = c.Extract(y.t, y.w-1, y.w-w)
			} else {
				piece = y.t
			}
		case y.zero:
			if w != x.w {
				piece = c.Extract(x.t, x.w-1, x.w-w)
			} else {
				piece = x.t
			}
		default:
			return nil
		}
		parts = append(parts, piece)
		if w == x.w {
			i++
		} else {
			rem := x
			rem.w = x.w - w
			if !x.zero {
				rem.t = c.Extract(x.t, x.w-w-1, 0)
			}
			sa[i] = rem
		}
		if w == y.w {
			j++
		} else {
			rem := y
			rem.w = y.w - w
			if !y.zero {
				rem.t = c.Extract(y.t, y.w-w-1, 0)
			}
			sb[j] = rem
		}
	}
	r := parts[0]
	for _, p := range parts[1:] {
		r = c.Concat(r, p)
	}
	return r
}
