package smt

import "math/big"

// Eval computes the value of t under an assignment of its variables (missing
// variables are 0). It returns nil if t contains an uninterpreted function.
func Eval(c *Ctx, t *Term, env map[string]*big.Int) *big.Int {
	return EvalMemo(c, t, env, map[int]*big.Int{})
}

// EvalMemo is Eval with a caller-owned memo table (valid for one env).
func EvalMemo(c *Ctx, t *Term, env map[string]*big.Int, memo map[int]*big.Int) *big.Int {
	var ev func(t *Term) *big.Int
	ev = func(t *Term) *big.Int {
		if v, ok := memo[t.ID]; ok {
			return v
		}
		var r *big.Int
		switch t.K {
		case KConst:
			r = t.Val
		case KVar:
			if v, ok := env[t.Name]; ok {
				r = v
			} else {
				r = new(big.Int)
			}
		case KApp:
			return nil
		default:
			args := make([]*Term, len(t.Args))
			for i, a := range t.Args {
				v := ev(a)
				if v == nil {
					return nil
				}
				if a.W == 0 {
					args[i] = c.Bool(v.Sign() != 0)
				} else {
					args[i] = c.BV(v, a.W)
				}
			}
			var k *Term
			switch t.K {
			case KNot:
				k = c.Not(args[0])
			case KAnd:
				k = c.And(args[0], args[1])
			case KOr:
				k = c.Or(args[0], args[1])
			case KIte:
				k = c.Ite(args[0], args[1], args[2])
			case KEq:
				k = c.Eq(args[0], args[1])
			case KUlt, KUle, KSlt, KSle:
				k = c.cmp(t.K, args[0], args[1])
			case KBNot:
				k = c.BNot(args[0])
			case KNeg:
				k = c.Neg(args[0])
			case KConcat:
				k = c.Concat(args[0], args[1])
			case KExtract:
				k = c.Extract(args[0], t.Hi, t.Lo)
			case KZExt:
				k = c.ZExt(args[0], t.Hi)
			case KSExt:
				k = c.SExt(args[0], t.Hi)
			default:
				k = c.bin(t.K, args[0], args[1])
			}
			if k.K != KConst {
				return nil
			}
			r = k.Val
		}
		memo[t.ID] = r
		return r
	}
	return ev(t)
}
