package smt

import (
	"fmt"
	"math/big"
	"strings"
)

// IntScript translates a set of bit-vector assertions into an equisatisfiable
// script over mathematical integers (QF_UFNIA). Every bit-vector term becomes
// an Int in [0, 2^w); modular reductions are omitted wherever a statically
// tracked upper bound shows that no wrap can occur, which turns the mul/div
// kernels of the code under test into the clean non-linear queries that z3 and
// cvc5 decide in milliseconds (bit-blasting the same queries does not finish).
// ok=false means the assertions use an operator the translation does not cover
// (general bitwise and/or/xor, variable shifts).
func IntScript(c *Ctx, asserts []*Term, vars []*Term) (script string, ok bool) {
	tr := &intTr{c: c, name: map[int]string{}, max: map[int]*big.Int{}, ufs: map[string]bool{}}
	defer func() {
		if r := recover(); r != nil {
			if _, isFail := r.(intFail); isFail {
				script, ok = "", false
				return
			}
			panic(r)
		}
	}()
	tr.sb.WriteString("(set-option :produce-models true)\n(set-logic ALL)\n")
	for _, a := range asserts {
		n := tr.tr(a)
		tr.sb.WriteString("(assert " + n + ")\n")
	}
	tr.sb.WriteString("(check-sat)\n")
	var names []string
	for _, v := range vars {
		if v.K == KVar {
			if _, seen := tr.name[v.ID]; seen {
				names = append(names, quoteName(v.Name))
			}
		}
	}
	if len(names) > 0 {
		tr.sb.WriteString("(get-value (" + strings.Join(names, " ") + "))\n")
	}
	return tr.sb.String(), true
}

type intFail struct{}

type intTr struct {
	c    *Ctx
	sb   strings.Builder
	name map[int]string
	max  map[int]*big.Int
	ufs  map[string]bool
}

func pow2(w int) *big.Int { return new(big.Int).Lsh(big.NewInt(1), uint(w)) }

func (tr *intTr) fail() { panic(intFail{}) }

func (tr *intTr) def(t *Term, expr string, max *big.Int) string {
	if t.W > 0 {
		lim := mask(t.W)
		if max == nil || max.Cmp(lim) > 0 {
			max = lim
		}
		tr.max[t.ID] = max
	}
	// inline atoms
	if !strings.HasPrefix(expr, "(") {
		tr.name[t.ID] = expr
		return expr
	}
	n := fmt.Sprintf("i%d", t.ID)
	sort := "Int"
	if t.W == 0 {
		sort = "Bool"
	}
	fmt.Fprintf(&tr.sb, "(define-fun %s () %s %s)\n", n, sort, expr)
	tr.name[t.ID] = n
	return n
}

// signedExpr gives the two's complement value of a (width w) as an Int expr.
func signedExpr(a string, w int) string {
	return fmt.Sprintf("(ite (>= %s %s) (- %s %s) %s)", a, pow2(w-1), a, pow2(w), a)
}

func (tr *intTr) tr(t *Term) string {
	if n, ok := tr.name[t.ID]; ok {
		return n
	}
	w := t.W
	switch t.K {
	case KConst:
		if w == 0 {
			if t.Val.Sign() != 0 {
				return tr.def(t, "true", nil)
			}
			return tr.def(t, "false", nil)
		}
		return tr.def(t, t.Val.String(), t.Val)
	case KVar:
		q := quoteName(t.Name)
		if w == 0 {
			fmt.Fprintf(&tr.sb, "(declare-const %s Bool)\n", q)
			return tr.def(t, q, nil)
		}
		fmt.Fprintf(&tr.sb, "(declare-const %s Int)\n(assert (and (<= 0 %s) (<= %s %s)))\n", q, q, q, mask(w))
		return tr.def(t, q, mask(w))
	case KApp:
		args := make([]string, len(t.Args))
		for i, a := range t.Args {
			args[i] = tr.tr(a)
		}
		q := quoteName(t.Name)
		if !tr.ufs[t.Name] {
			tr.ufs[t.Name] = true
			d := tr.c.UFs[t.Name]
			var as []string
			for _, aw := range d.Args {
				if aw == 0 {
					as = append(as, "Bool")
				} else {
					as = append(as, "Int")
				}
			}
			ret := "Int"
			if d.Ret == 0 {
				ret = "Bool"
			}
			fmt.Fprintf(&tr.sb, "(declare-fun %s (%s) %s)\n", q, strings.Join(as, " "), ret)
		}
		expr := q
		if len(args) > 0 {
			expr = "(" + q + " " + strings.Join(args, " ") + ")"
		}
		n := fmt.Sprintf("i%d", t.ID)
		if w == 0 {
			fmt.Fprintf(&tr.sb, "(define-fun %s () Bool %s)\n", n, expr)
		} else {
			fmt.Fprintf(&tr.sb, "(define-fun %s () Int %s)\n(assert (and (<= 0 %s) (<= %s %s)))\n", n, expr, n, n, mask(w))
			tr.max[t.ID] = mask(w)
		}
		tr.name[t.ID] = n
		return n
	}
	args := make([]string, len(t.Args))
	for i, a := range t.Args {
		args[i] = tr.tr(a)
	}
	mx := func(i int) *big.Int { return tr.max[t.Args[i].ID] }
	switch t.K {
	case KNot:
		return tr.def(t, "(not "+args[0]+")", nil)
	case KAnd:
		return tr.def(t, "(and "+args[0]+" "+args[1]+")", nil)
	case KOr:
		return tr.def(t, "(or "+args[0]+" "+args[1]+")", nil)
	case KIte:
		var m *big.Int
		if w > 0 {
			m = mx(1)
			if mx(2).Cmp(m) > 0 {
				m = mx(2)
			}
		}
		return tr.def(t, "(ite "+args[0]+" "+args[1]+" "+args[2]+")", m)
	case KEq:
		return tr.def(t, "(= "+args[0]+" "+args[1]+")", nil)
	case KUlt:
		return tr.def(t, "(< "+args[0]+" "+args[1]+")", nil)
	case KUle:
		return tr.def(t, "(<= "+args[0]+" "+args[1]+")", nil)
	case KSlt, KSle:
		aw := t.Args[0].W
		op := "<"
		if t.K == KSle {
			op = "<="
		}
		return tr.def(t, "("+op+" "+signedExpr(args[0], aw)+" "+signedExpr(args[1], aw)+")", nil)
	case KZExt:
		return tr.def(t, args[0], mx(0))
	case KSExt:
		aw := t.Args[0].W
		off := new(big.Int).Sub(pow2(w), pow2(aw))
		return tr.def(t, fmt.Sprintf("(ite (>= %s %s) (+ %s %s) %s)", args[0], pow2(aw-1), args[0], off, args[0]), nil)
	case KExtract:
		a := args[0]
		am := mx(0)
		shifted := new(big.Int).Rsh(am, uint(t.Lo))
		e := a
		if t.Lo > 0 {
			e = fmt.Sprintf("(div %s %s)", a, pow2(t.Lo))
		}
		if shifted.Cmp(mask(w)) > 0 {
			e = fmt.Sprintf("(mod %s %s)", e, pow2(w))
			shifted = mask(w)
		}
		return tr.def(t, e, shifted)
	case KConcat:
		bw := t.Args[1].W
		m := new(big.Int).Add(new(big.Int).Lsh(mx(0), uint(bw)), mx(1))
		return tr.def(t, fmt.Sprintf("(+ (* %s %s) %s)", args[0], pow2(bw), args[1]), m)
	case KAdd:
		m := new(big.Int).Add(mx(0), mx(1))
		s := "(+ " + args[0] + " " + args[1] + ")"
		if m.Cmp(mask(w)) <= 0 {
			return tr.def(t, s, m)
		}
		raw := fmt.Sprintf("r%d", t.ID)
		fmt.Fprintf(&tr.sb, "(define-fun %s () Int %s)\n", raw, s)
		return tr.def(t, fmt.Sprintf("(ite (>= %s %s) (- %s %s) %s)", raw, pow2(w), raw, pow2(w), raw), nil)
	case KSub:
		raw := fmt.Sprintf("r%d", t.ID)
		fmt.Fprintf(&tr.sb, "(define-fun %s () Int (- %s %s))\n", raw, args[0], args[1])
		return tr.def(t, fmt.Sprintf("(ite (< %s 0) (+ %s %s) %s)", raw, raw, pow2(w), raw), nil)
	case KMul:
		m := new(big.Int).Mul(mx(0), mx(1))
		p := "(* " + args[0] + " " + args[1] + ")"
		if m.Cmp(mask(w)) <= 0 {
			return tr.def(t, p, m)
		}
		return tr.def(t, fmt.Sprintf("(mod %s %s)", p, pow2(w)), nil)
	case KUDiv:
		if t.Args[1].K == KConst && t.Args[1].Val.Sign() != 0 {
			return tr.def(t, "(div "+args[0]+" "+args[1]+")", new(big.Int).Quo(mx(0), t.Args[1].Val))
		}
		return tr.def(t, fmt.Sprintf("(ite (= %s 0) %s (div %s %s))", args[1], mask(w), args[0], args[1]), nil)
	case KURem:
		if t.Args[1].K == KConst && t.Args[1].Val.Sign() != 0 {
			m := new(big.Int).Sub(t.Args[1].Val, big.NewInt(1))
			if mx(0).Cmp(m) < 0 {
				m = mx(0)
			}
			return tr.def(t, "(mod "+args[0]+" "+args[1]+")", m)
		}
		return tr.def(t, fmt.Sprintf("(ite (= %s 0) %s (mod %s %s))", args[1], args[0], args[0], args[1]), mx(0))
	case KSDiv, KSRem:
		sa, sb := signedExpr(args[0], w), signedExpr(args[1], w)
		a, b := fmt.Sprintf("sa%d", t.ID), fmt.Sprintf("sb%d", t.ID)
		fmt.Fprintf(&tr.sb, "(define-fun %s () Int %s)\n(define-fun %s () Int %s)\n", a, sa, b, sb)
		// truncated quotient of |a| / |b| with sign
		q := fmt.Sprintf("(ite (= (< %s 0) (< %s 0)) (div (abs %s) (abs %s)) (- (div (abs %s) (abs %s))))", a, b, a, b, a, b)
		var val string
		if t.K == KSDiv {
			// SMT-LIB: division by zero gives 1 for negative a, all ones otherwise
			val = fmt.Sprintf("(ite (= %s 0) (ite (< %s 0) 1 (- 1)) %s)", b, a, q)
		} else {
			r := fmt.Sprintf("(- %s (* %s %s))", a, b, q)
			val = fmt.Sprintf("(ite (= %s 0) %s %s)", b, a, r)
		}
		return tr.def(t, fmt.Sprintf("(mod %s %s)", val, pow2(w)), nil)
	case KNeg:
		return tr.def(t, fmt.Sprintf("(ite (= %s 0) 0 (- %s %s))", args[0], pow2(w), args[0]), nil)
	case KBNot:
		return tr.def(t, fmt.Sprintf("(- %s %s)", mask(w), args[0]), nil)
	case KBAnd, KBOr, KBXor:
		if w == 1 {
			switch t.K {
			case KBAnd:
				return tr.def(t, "(* "+args[0]+" "+args[1]+")", big.NewInt(1))
			case KBOr:
				return tr.def(t, fmt.Sprintf("(ite (= (+ %s %s) 0) 0 1)", args[0], args[1]), big.NewInt(1))
			default:
				return tr.def(t, fmt.Sprintf("(ite (= %s %s) 0 1)", args[0], args[1]), big.NewInt(1))
			}
		}
		tr.fail()
	case KShl, KLshr, KAshr:
		// constant shifts were rewritten to concat/extract by the simplifier
		tr.fail()
	}
	tr.fail()
	return ""
}
