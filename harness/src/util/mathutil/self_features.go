package mathutil

// Engine self-test (property id SELF, not a skycoin property): Go language
// features are executed symbolically and every path witness is re-run natively;
// observed values must agree. Run with: gosx check SELF

import (
	"bytes"
	"encoding/binary"
	"encoding/hex"
	"errors"
	"sort"
	"strconv"
	"strings"
)

type vpShape interface {
	Area() uint64
	Name() string
}
type vpRect struct{ w, h uint64 }
type vpSquare struct{ s uint64 }

func (r vpRect) Area() uint64    { return r.w * r.h }
func (r vpRect) Name() string    { return "rect" }
func (s *vpSquare) Area() uint64 { return s.s * s.s }
func (s *vpSquare) Name() string { return "square" }

var vpErrSentinel = errors.New("sentinel")

type vpPair struct {
	k [4]byte
	v uint32
}

//vp:prop SELF
func vpH_SELF_ints() {
	a, b := vpU8("a"), vpU8("b")
	s := int8(a)
	vpObserve("add", uint64(a+b))
	vpObserve("sub", uint64(a-b))
	vpObserve("mul", uint64(a*b))
	vpObserve("sext", uint64(int64(s)))
	vpObserve("shr", uint64(s>>3))
	vpObserve("ushr", uint64(a>>(b&7)))
	vpObserve("shl", uint64(a<<(b&15)))
	vpObserve("andnot", uint64(a&^b))
	vpObserve("xor", uint64(^a^b))
	if b != 0 {
		vpObserve("div", uint64(a/b))
		vpObserve("rem", uint64(a%b))
		vpObserve("sdiv", uint64(int64(s/int8(b))))
		vpObserve("srem", uint64(int64(s%int8(b))))
	}
	x := vpU64("x")
	vpObserve("wide", x*0x9E3779B97F4A7C15>>7)
	if int64(x) < -5 {
		vpReach("neg")
	}
	vpObserve("neg", uint64(-int64(x)))
}

//vp:prop SELF
func vpH_SELF_slices_maps() {
	n := vpLen("n", 0, 3)
	bs := vpBytes("bs", n)
	sum := uint64(0)
	for i, b := range bs {
		sum += uint64(b) * uint64(i+1)
	}
	vpObserve("sum", sum)
	cp := make([]byte, len(bs), len(bs)+2)
	copy(cp, bs)
	cp = append(cp, 7, 9)
	cp2 := append(cp, 11)
	cp[0] = 1
	vpObserve("cp2_0", uint64(cp2[0]))
	vpObserve("len", uint64(len(cp2)))
	m := map[[4]byte]uint32{}
	var k1, k2 [4]byte
	vpFill("k1", &k1)
	vpFill("k2", &k2)
	m[k1] = 10
	m[k2] += 5
	vpObserve("maplen", uint64(len(m)))
	vpObserve("m_k1", uint64(m[k1]))
	if v, ok := m[[4]byte{1, 2, 3, 4}]; ok {
		vpObserve("found", uint64(v))
	}
	delete(m, k1)
	vpObserve("maplen2", uint64(len(m)))
	ms := map[string]int{"a": 1, "bb": 2}
	ms["a"]++
	tot := 0
	for _, v := range ms {
		tot += v
	}
	vpObserve("tot", uint64(tot))
	var arr [5]uint16
	i := vpU8("i")
	if i < 5 {
		arr[i] = 77
		vpObserve("arr2", uint64(arr[2]))
		vpObserve("arri", uint64(arr[i]))
	}
	sub := bs[:n/2]
	vpObserve("sublen", uint64(len(sub)+cap(sub)))
	var ps []vpPair
	ps = append(ps, vpPair{k1, 1}, vpPair{k2, 2})
	ps[1].v += uint32(k1[0])
	vpObserve("ps", uint64(ps[1].v))
	if ps[0] == ps[1] {
		vpReach("pairs-equal")
	}
}

//vp:prop SELF
func vpH_SELF_iface_closure_defer() {
	a := vpU32("a")
	var sh vpShape
	if a%2 == 0 {
		sh = vpRect{uint64(a), 3}
	} else {
		sh = &vpSquare{uint64(a)}
	}
	vpObserve("area", sh.Area())
	if sh.Name() == "rect" {
		vpReach("rect")
	}
	if sq, ok := sh.(*vpSquare); ok {
		sq.s++
		vpObserve("area2", sh.Area())
	}
	switch v := sh.(type) {
	case vpRect:
		vpObserve("w", v.w)
	case *vpSquare:
		vpObserve("s", v.s)
	}
	acc := uint64(0)
	add := func(x uint64) { acc += x }
	for i := uint64(0); i < 3; i++ {
		add(i * uint64(a))
	}
	vpObserve("acc", acc)
	f := sh.Area
	vpObserve("mv", f())
	r := vpDeferTest(a)
	vpObserve("defer", r)
	err := vpMayFail(a)
	if err == vpErrSentinel {
		vpReach("sentinel")
	} else if err != nil {
		vpReach("other-error:" + err.Error())
	}
	var e2 error
	if errors.Is(err, vpErrSentinel) && e2 == nil {
		vpReach("is")
	}
}

func vpDeferTest(a uint32) (res uint64) {
	defer func() {
		if r := recover(); r != nil {
			res = 1000 + res
		}
	}()
	defer func() { res += 5 }()
	res = uint64(a % 7)
	if a%3 == 0 {
		var arr []int
		_ = arr[int(a%3)+1]
	}
	if a%3 == 1 {
		panic("boom")
	}
	return res * 2
}

func vpMayFail(a uint32) error {
	switch a % 5 {
	case 0:
		return vpErrSentinel
	case 1:
		return errors.New("x" + strconv.Itoa(int(a%5)))
	}
	return nil
}

//vp:prop SELF
func vpH_SELF_stdlib() {
	x := vpU32("x")
	y := vpU64("y")
	var buf bytes.Buffer
	var tmp [8]byte
	binary.LittleEndian.PutUint32(tmp[:4], x)
	buf.Write(tmp[:4])
	binary.BigEndian.PutUint64(tmp[:], y)
	buf.Write(tmp[:])
	buf.WriteByte(0xAB)
	b := buf.Bytes()
	vpObserve("buflen", uint64(len(b)))
	vpObserve("le", uint64(binary.LittleEndian.Uint32(b[:4])))
	vpObserve("be", binary.BigEndian.Uint64(b[4:12]))
	vpObserve("b0", uint64(b[0]))
	nx := buf.Next(2)
	vpObserve("nx", uint64(nx[1]))
	vpObserve("rest", uint64(buf.Len()))
	h := hex.EncodeToString(b[:2])
	vpObserve("hex0", uint64(h[0]))
	vpObserve("hexlen", uint64(len(h)))
	d, err := hex.DecodeString("0aff")
	if err == nil {
		vpObserve("dec", uint64(d[1]))
	}
	if bytes.Equal(b[:2], []byte{1, 2}) {
		vpReach("eq12")
	}
	s := strings.Repeat("ab", 2) + strconv.Itoa(42)
	vpObserve("slen", uint64(len(s)))
	if strings.HasPrefix(s, "abab") && strings.Contains(s, "b4") && strings.Index(s, "42") == 4 {
		vpReach("strings-ok")
	}
	parts := strings.Split("a:b:c", ":")
	vpObserve("parts", uint64(len(parts)))
	n, perr := strconv.ParseUint("1234", 10, 16)
	if perr == nil {
		vpObserve("parse", n)
	}
	vals := []uint64{uint64(x % 7), y % 5, 3}
	sort.Slice(vals, func(i, j int) bool { return vals[i] < vals[j] })
	vpObserve("sorted0", vals[0])
	vpObserve("sorted2", vals[2])
	ss := sort.IntSlice{int(x % 3), 1, 0}
	sort.Sort(ss)
	vpObserve("ss2", uint64(ss[2]))
}

//vp:prop SELF
func vpH_SELF_strings_runes() {
	n := vpLen("n", 0, 2)
	s := vpStr("s", n)
	cnt := uint64(0)
	for _, r := range s {
		cnt += uint64(r)
	}
	vpObserve("runesum", cnt)
	rs := []rune(s)
	vpObserve("nrunes", uint64(len(rs)))
	if s < "b" {
		vpReach("less-b")
	}
	if s == "hi" {
		vpReach("is-hi")
	}
	t := s + "!"
	vpObserve("last", uint64(t[len(t)-1]))
	bs := []byte(s)
	if len(bs) > 0 {
		bs[0] ^= 0x20
		vpObserve("flip", uint64(string(bs)[0]))
	}
}

//vp:prop SELF
func vpH_SELF_ifconv() {
	a, b, c := vpU64("a"), vpU64("b"), vpU8("c")
	x := uint64(0)
	if a > 5 && b < 7 || c == 3 {
		x++
	}
	if a%2 == 0 {
		x += 10
	} else {
		x += 20
	}
	arr := [4]uint64{1, 2, 3, 4}
	if c < 4 && arr[c] > 2 {
		x += 100
	}
	m := a
	if b > m {
		m = b
	}
	var p *vpRect
	if c == 9 {
		p = &vpRect{w: a, h: 2}
	}
	if p != nil && p.w > 3 {
		x += 1000
	}
	vpObserve("x", x)
	vpObserve("max", m)
}

//vp:prop SELF
func vpH_SELF_strings2() {
	a := vpU8("a")
	s := " 11.22:60\n" + string([]byte{'0' + a%10})
	c := strings.ReplaceAll(strings.ReplaceAll(s, " ", ""), "\n", "")
	vpObserve("len", uint64(len(c)))
	vpObserve("first", uint64(c[0]))
	parts := strings.Split(c, ":")
	vpObserve("parts", uint64(len(parts)))
	vpObserve("hasSuffix", uint64(len(strings.TrimSuffix(c, "0"))))
	if strings.HasPrefix(c, "11.") && strings.Contains(c, ":6") {
		vpReach("ok")
	}
}
