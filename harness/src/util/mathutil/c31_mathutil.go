package mathutil

// C31 — checked arithmetic helpers: error exactly when the mathematical
// result does not fit, otherwise the exact result. Full 64-bit domain, no loop.

//vp:prop C31
//vp:bounds none: loop-free, all 2^128 input pairs
func vpH_C31_AddUint64() {
	a, b := vpU64("a"), vpU64("b")
	r, err := AddUint64(a, b)
	hi, lo := vpAdd128(a, b)
	if hi != 0 {
		vpAssert(err == ErrUint64AddOverflow, "add64_error_iff_overflow")
		vpAssert(r == 0, "add64_zero_on_error")
		vpReach("overflow")
	} else {
		vpAssert(err == nil, "add64_no_spurious_error")
		vpAssert(r == lo, "add64_exact")
		vpReach("fits")
	}
}

//vp:prop C31
//vp:bounds none: loop-free, all 2^64 input pairs
func vpH_C31_AddUint32() {
	a, b := vpU32("a"), vpU32("b")
	r, err := AddUint32(a, b)
	s := uint64(a) + uint64(b)
	if s > 0xFFFFFFFF {
		vpAssert(err == ErrUint32AddOverflow, "add32_error_iff_overflow")
		vpAssert(r == 0, "add32_zero_on_error")
	} else {
		vpAssert(err == nil, "add32_no_spurious_error")
		vpAssert(uint64(r) == s, "add32_exact")
	}
}

//vp:prop C31
//vp:bounds none: loop-free, all 2^128 input pairs (decided via the integer translation of the bit-vector query)
func vpH_C31_MultUint64() {
	a, b := vpU64("a"), vpU64("b")
	r, err := MultUint64(a, b)
	hi, lo := vpMul128(a, b)
	if hi != 0 {
		vpAssert(err == ErrUint64MultOverflow, "mul64_error_iff_overflow")
		vpAssert(r == 0, "mul64_zero_on_error")
		vpReach("overflow")
	} else {
		vpAssert(err == nil, "mul64_no_spurious_error")
		vpAssert(r == lo, "mul64_exact")
		vpReach("fits")
	}
}

//vp:prop C31
func vpH_C31_Conversions() {
	u := vpU64("u")
	i, err := Uint64ToInt64(u)
	if u > 0x7FFFFFFFFFFFFFFF {
		vpAssert(err == ErrUint64OverflowsInt64 && i == 0, "u2i_error_iff_too_big")
	} else {
		vpAssert(err == nil && i >= 0 && uint64(i) == u, "u2i_exact")
	}
	s := vpI64("s")
	v, err2 := Int64ToUint64(s)
	if s < 0 {
		vpAssert(err2 == ErrInt64UnderflowsUint64 && v == 0, "i2u_error_iff_negative")
	} else {
		vpAssert(err2 == nil && int64(v) == s, "i2u_exact")
	}
	n := vpInt("n")
	w, err3 := IntToUint32(n)
	switch {
	case n < 0:
		vpAssert(err3 == ErrIntUnderflowsUint32 && w == 0, "i2u32_negative")
	case n > 0xFFFFFFFF:
		vpAssert(err3 == ErrIntOverflowsUint32 && w == 0, "i2u32_too_big")
	default:
		vpAssert(err3 == nil && int(w) == n, "i2u32_exact")
	}
}
