package mathutil

// Engine self-test for the math/big interpretation: every path witness is
// re-run natively against the real library and the observed values must agree.

import "math/big"

func vpObsBig(tag string, x *big.Int) {
	vpObserve(tag+".sign", uint64(int64(x.Sign())))
	vpObserve(tag+".lo", new(big.Int).Abs(x).Uint64())
	vpObserve(tag+".len", uint64(len(x.Bytes())))
}

//vp:prop SELF
//vp:maxvalues 40
func vpH_SELF_bigArith() {
	ab, bb := vpBytes("a", 2), vpBytes("b", 1)
	a, b := new(big.Int).SetBytes(ab), new(big.Int).SetBytes(bb)
	if vpBool("negA") {
		a.Neg(a)
	}
	if vpBool("negB") {
		b.Neg(b)
	}
	vpObsBig("add", new(big.Int).Add(a, b))
	vpObsBig("sub", new(big.Int).Sub(a, b))
	vpObsBig("mul", new(big.Int).Mul(a, b))
	vpObserve("cmp", uint64(int64(a.Cmp(b))))
	vpObserve("cmpabs", uint64(int64(a.CmpAbs(b))))
	if b.Sign() != 0 {
		q, r := new(big.Int).QuoRem(a, b, new(big.Int))
		vpObsBig("quo", q)
		vpObsBig("rem", r)
		d, m := new(big.Int).DivMod(a, b, new(big.Int))
		vpObsBig("div", d)
		vpObsBig("mod", m)
		vpObsBig("mod2", new(big.Int).Mod(a, b))
	}
	vpObserve("isint64", vpB2U(a.IsInt64()))
	vpObserve("isuint64", vpB2U(a.IsUint64()))
	vpObserve("int64", uint64(a.Int64()))
	vpObserve("bitlen", uint64(a.BitLen()))
	n := big.NewInt(int64(vpU64("n")))
	vpObsBig("newint", n)
	vpObsBig("lsh", new(big.Int).Lsh(a, 13))
	var buf [4]byte
	new(big.Int).Abs(a).FillBytes(buf[:])
	vpObserve("fill", uint64(buf[2])<<8|uint64(buf[3]))
}

func vpB2U(b bool) uint64 {
	if b {
		return 1
	}
	return 0
}

//vp:prop SELF
//vp:maxvalues 40
func vpH_SELF_bigText() {
	s := vpStr("s", vpLen("len", 0, 4))
	x, ok := new(big.Int).SetString(s, 10)
	if !ok {
		vpReach("rejected")
		return
	}
	vpObsBig("parsed", x)
	t := x.String()
	vpObserve("textlen", uint64(len(t)))
	vpObserve("text0", uint64(t[0]))
	vpObserve("textlast", uint64(t[len(t)-1]))
	y := new(big.Int).Mul(x, big.NewInt(1000003))
	u := y.String()
	vpObserve("ulen", uint64(len(u)))
	vpObserve("u0", uint64(u[0]))
	h, okh := new(big.Int).SetString(s, 16)
	if okh {
		vpObsBig("hex", h)
	}
}
