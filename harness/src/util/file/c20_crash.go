package file

import (
	"bytes"
	"os"
	"strings"
)

// C20 — a crash at any point of file.SaveBinary leaves every file the loaders
// look at (the target; for wallets every *.wlt file of the directory) with
// either its previous or its new complete content.
//
// File-system model (ordered writes): WriteFile = create-or-truncate, then the
// data (a crash during the write leaves an arbitrary prefix), Remove and Rename
// are atomic. The crash point and the torn length are solver variables.

type vpCrash struct{}

var (
	vpFS      map[string][]byte
	vpStep    int
	vpCrashAt int
)

func vpTick() {
	if vpStep == vpCrashAt {
		panic(vpCrash{})
	}
	vpStep++
}

func vpModelWriteFile(name string, data []byte, perm os.FileMode) error {
	vpTick() // crash before the file is opened
	vpFS[name] = []byte{}
	if vpStep == vpCrashAt { // crash while writing: some prefix reached the disk
		n := vpLen("tornLength", 0, len(data))
		vpFS[name] = append([]byte{}, data[:n]...)
		panic(vpCrash{})
	}
	vpStep++
	vpFS[name] = append([]byte{}, data...)
	return nil
}

func vpModelRemove(name string) error {
	vpTick()
	delete(vpFS, name)
	return nil
}

func vpModelRename(from, to string) error {
	vpTick()
	if v, ok := vpFS[from]; ok {
		vpFS[to] = v
		delete(vpFS, from)
	}
	return nil
}

//vp:prop C20
//vp:bounds target file with a previous content of 3 free bytes (or absent), new content of 4 free bytes; crash before any of the first 8 file-system steps or during either write with every torn length, or no crash
//vp:assume ordered-write file-system model: create/truncate, write (prefix on crash), atomic remove and rename; wallet loading reads every *.wlt file of the directory and fails on an incomplete one, key-value loading reads only its own file
//vp:rule io/ioutil.WriteFile model:vpModelWriteFile
//vp:rule os.WriteFile model:vpModelWriteFile
//vp:rule os.Remove model:vpModelRemove
//vp:rule os.Rename model:vpModelRename
//vp:noreplay the file system is a model; the finding is demonstrated natively by truncating the second write
//vp:unwind 40
func vpH_C20_SaveBinaryCrash() {
	const target = "w.wlt"
	vpFS = map[string][]byte{}
	old := vpBytes("old", 3)
	existed := vpBool("targetExists")
	if existed {
		vpFS[target] = append([]byte{}, old...)
	}
	data := vpBytes("new", 4)
	vpStep = 0
	vpCrashAt = vpLen("crashBeforeStep", 0, 8) // 8 = beyond the last step: no crash
	crashed := vpPanics(func() {
		err := SaveBinary(target, data, 0600)
		vpAssert(err == nil, "save_succeeds_without_io_errors")
	})
	if !crashed {
		vpAssert(bytes.Equal(vpFS[target], data), "completed_save_stores_the_new_content")
		vpAssert(len(vpFS) == 1, "completed_save_leaves_no_temporary_file")
		vpReach("completed")
		return
	}
	vpReach("crashed")
	got, ok := vpFS[target]
	if existed {
		vpAssert(ok && (bytes.Equal(got, old) || bytes.Equal(got, data)), "after_a_crash_the_file_holds_the_previous_or_the_new_content")
	} else {
		vpAssert(!ok || bytes.Equal(got, data), "after_a_crash_a_new_file_is_absent_or_complete")
	}
	// nothing else in the directory may look like a wallet and be incomplete
	strays := 0
	for name := range vpFS {
		if name != target && strings.HasSuffix(name, ".wlt") {
			strays++
		}
	}
	vpAssert(strays == 0, "no_leftover_file_is_picked_up_by_the_wallet_loader")
}
