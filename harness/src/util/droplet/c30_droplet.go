package droplet

import "math"

// C30 — droplet amounts and their six-decimal text. shopspring/decimal runs for
// real; math/big is interpreted as mathematical integers.

//vp:prop C30
//vp:bounds every amount below 10^7 droplets (quick) / below 10^9 droplets (thorough), and every amount above the signed 64-bit range (refused); larger representable amounts are outside the bound (the digit-sum equation over more decimal digits is not decided by any back end within 60 s); the number of decimal digits is a separate path each
//vp:assume math/big operations have their documented meaning (the library itself is not executed)
//vp:timeout 60000
func vpH_C30_RoundTrip() {
	n := vpU64("amount")
	if vpBool("beyondSignedRange") {
		vpAssume(n > math.MaxInt64)
	} else if !vpThorough() {
		vpAssume(n < 10000000)
	} else {
		vpAssume(n < 1000000000)
	}
	s, err := ToString(n)
	if n > math.MaxInt64 {
		vpAssert(err == ErrTooLarge, "amount_beyond_the_signed_range_is_refused")
		return
	}
	vpAssert(err == nil, "representable_amount_has_a_text")
	vpAssert(len(s) >= 8 && s[len(s)-7] == '.', "text_has_exactly_six_decimals")
	for i := 0; i < len(s); i++ {
		if i != len(s)-7 {
			vpAssert(s[i] >= '0' && s[i] <= '9', "text_is_digits_and_one_point")
		}
	}
	vpAssert(len(s) == 8 || s[0] != '0', "no_superfluous_leading_zero")
	back, err := FromString(s)
	vpAssert(err == nil, "own_text_parses")
	vpAssert(back == n, "text_round_trip_returns_the_amount")
	vpReach("round-trip")
}

func vpDigits(tag string, n int) []byte {
	b := vpBytes(tag, n)
	for _, c := range b {
		vpAssume(c >= '0' && c <= '9')
	}
	return b
}

func vpVal(ds []byte) uint64 {
	var v uint64
	for _, c := range ds {
		v = v*10 + uint64(c-'0')
	}
	return v
}

//vp:prop C30
//vp:bounds plain decimal texts: optional sign, 0..2 integer digits, optional point, 0..7 fraction digits, all digits free
//vp:assume math/big operations have their documented meaning
//vp:maxvalues 40
func vpH_C30_ParsePlain() {
	sign := [3]string{"", "-", "+"}[vpLen("sign", 0, 2)]
	ip := vpDigits("int", vpLen("intDigits", 0, 2))
	fp := vpDigits("frac", vpLen("fracDigits", 0, 7))
	point := len(fp) > 0 || vpBool("trailingPoint")
	s := sign + string(ip)
	if point {
		s += "." + string(fp)
	}
	got, err := FromString(s)

	if len(ip)+len(fp) == 0 {
		vpAssert(err != nil, "text_without_digits_is_refused")
		return
	}
	var frac6 [6]byte
	for i := range frac6 {
		frac6[i] = '0'
		if i < len(fp) {
			frac6[i] = fp[i]
		}
	}
	want := vpVal(ip)*1000000 + vpVal(frac6[:])
	tooFine := len(fp) == 7 && fp[6] != '0'
	switch {
	case tooFine && !(sign == "-"):
		vpAssert(err == ErrTooManyDecimals, "more_than_six_decimals_is_refused")
	case sign == "-" && (want != 0 || tooFine):
		vpAssert(err != nil, "negative_amount_is_refused")
	case len(ip) == 0 && vpVal(frac6[:]) == 0 && !tooFine:
		// ".0", ".00", ... (zero written without integer digits): see KNOWN_FINDINGS
		vpAssert(err == nil && got == 0, "zero_written_without_integer_digits_is_accepted")
	default:
		vpAssert(err == nil, "well_formed_amount_is_accepted")
		vpAssert(got == want, "parsed_value_is_exact")
	}
}

//vp:prop C30
//vp:bounds texts 9223372036854.77dddd (four free digits) around the largest representable amount; scientific notation DeK, De+K, De-K with one free non-zero digit D and one free digit K; every text of 3 free bytes
//vp:assume math/big operations have their documented meaning
//vp:maxvalues 40
func vpH_C30_ParseEdges() {
	switch vpLen("shape", 0, 2) {
	case 0:
		d := vpDigits("last", 4)
		got, err := FromString("9223372036854.77" + string(d))
		v := 9223372036854770000 + vpVal(d)
		if v > math.MaxInt64 {
			vpAssert(err == ErrTooLarge, "amount_beyond_the_signed_range_is_refused")
		} else {
			vpAssert(err == nil && got == v, "largest_amounts_parse_exactly")
		}
	case 1:
		d, k := vpDigits("mantissa", 1), vpDigits("exponent", 1)
		vpAssume(d[0] != '0')
		es := [3]string{"", "+", "-"}[vpLen("expSign", 0, 2)]
		got, err := FromString(string(d) + "e" + es + string(k))
		e := int(k[0] - '0')
		if es == "-" {
			e = -e
		}
		if e < -6 {
			vpAssert(err == ErrTooManyDecimals, "more_than_six_decimals_is_refused")
		} else {
			want := uint64(d[0] - '0')
			for i := 0; i < 6+e; i++ {
				want *= 10
			}
			vpAssert(err == nil && got == want, "scientific_notation_parses_exactly")
		}
	case 2:
		b := vpBytes("text", 3)
		_, err := FromString(string(b))
		if err == nil {
			digits := 0
			for _, c := range b {
				ok := (c >= '0' && c <= '9') || c == '.' || c == 'e' || c == 'E' || c == '+' || c == '-'
				vpAssert(ok, "accepted_text_is_decimal_notation")
				if c >= '0' && c <= '9' {
					digits++
				}
			}
			vpAssert(digits > 0, "accepted_text_has_a_digit")
		}
	}
}
