package fee

// C31 / C11 — fee kernel: RequiredFee = ceil(hours/burn), the remainder never
// underflows, VerifyTransactionFeeForHours accepts exactly when it should.

//vp:prop C31 C11
//vp:bounds none: loop-free; hours free 64-bit, burn factor free non-zero 32-bit
//vp:assume burn factor != 0 (params.VerifyTxn.Validate enforces >= 2; a zero divisor panics by design)
func vpH_C31_RequiredFee() {
	h := vpU64("hours")
	b := vpU32("burn")
	vpAssume(b != 0)
	fee := RequiredFee(h, b)
	hi, lo := vpMul128(fee, uint64(b))
	vpAssert(hi != 0 || lo >= h, "fee_times_burn_covers_hours")
	if h == 0 {
		vpAssert(fee == 0, "zero_hours_zero_fee")
	} else {
		hi2, lo2 := vpMul128(fee-1, uint64(b))
		vpAssert(fee >= 1 && hi2 == 0 && lo2 < h, "fee_is_least_such_value")
	}
	vpAssert(fee <= h, "fee_never_exceeds_hours")
	r := RemainingHours(h, b)
	rhi, rlo := vpAdd128(r, fee)
	vpAssert(rhi == 0 && rlo == h, "remaining_plus_fee_is_hours")
}

//vp:prop C31 C11
//vp:bounds none: loop-free; hours, fee free 64-bit, burn factor free non-zero 32-bit
//vp:assume burn factor != 0
func vpH_C31_VerifyFeeForHours() {
	hours, fee := vpU64("hours"), vpU64("fee")
	b := vpU32("burn")
	vpAssume(b != 0)
	err := VerifyTransactionFeeForHours(hours, fee, b)
	thi, tlo := vpAdd128(hours, fee)
	switch {
	case fee == 0:
		vpAssert(err == ErrTxnNoFee, "zero_fee_rejected_as_no_fee")
	case thi != 0:
		vpAssert(err != nil && err != ErrTxnNoFee && err != ErrTxnInsufficientFee, "hours_plus_fee_overflow_rejected")
	default:
		phi, plo := vpMul128(fee, uint64(b))
		if phi != 0 || plo >= tlo {
			vpAssert(err == nil, "sufficient_fee_accepted")
		} else {
			vpAssert(err == ErrTxnInsufficientFee, "insufficient_fee_rejected")
		}
	}
}
