package kvstorage

import (
	"bytes"
	"os"
)

// C20-H2 — the key-value storage's save path (kvStorage.add / remove -> flush ->
// file.SaveJSON -> file.SaveBinary) under the same ordered-write file-system
// model as C20-H1: after a crash at any step the storage file holds its
// previous or its new complete content (and still exists if it existed).

type vpCrash struct{}

var (
	vpFS      map[string][]byte
	vpStep    int
	vpCrashAt int
)

func vpTick() {
	if vpStep == vpCrashAt {
		panic(vpCrash{})
	}
	vpStep++
}

func vpModelWriteFile(name string, data []byte, perm os.FileMode) error {
	vpTick()
	vpFS[name] = []byte{}
	if vpStep == vpCrashAt {
		n := vpLen("tornLength", 0, len(data))
		vpFS[name] = append([]byte{}, data[:n]...)
		panic(vpCrash{})
	}
	vpStep++
	vpFS[name] = append([]byte{}, data...)
	return nil
}

func vpModelRemove(name string) error {
	vpTick()
	delete(vpFS, name)
	return nil
}

func vpModelRename(from, to string) error {
	vpTick()
	if v, ok := vpFS[from]; ok {
		vpFS[to] = v
		delete(vpFS, from)
	}
	return nil
}

// the JSON text of the data map: an uninterpreted injective function of its
// single entry's value (JSON is not executed)
func vpModelMarshalIndent(v interface{}, prefix, indent string) ([]byte, error) {
	m := v.(map[string]string)
	return vpUFBytesInj("json", 4, []byte(m["k"])), nil
}

//vp:prop C20
//vp:bounds a storage file with a previous content; one add of a key with a free 2-byte value; crash before any of the first 8 file-system steps or during a write with every torn length, or no crash
//vp:assume ordered-write file-system model as in the SaveBinary harness; the JSON text is an injective function of the stored data (encoding/json is not executed)
//vp:rule io/ioutil.WriteFile model:vpModelWriteFile
//vp:rule os.WriteFile model:vpModelWriteFile
//vp:rule os.Remove model:vpModelRemove
//vp:rule os.Rename model:vpModelRename
//vp:rule encoding/json.MarshalIndent model:vpModelMarshalIndent
//vp:noreplay the file system is a model
//vp:unwind 40
func vpH_C20_KVStorageFlushCrash() {
	const target = "client.json"
	oldVal := vpStr("oldValue", 2)
	old, _ := vpModelMarshalIndent(map[string]string{"k": oldVal}, "", "")
	vpFS = map[string][]byte{target: append([]byte{}, old...)}
	s := &kvStorage{fn: target, data: map[string]string{"k": oldVal}}
	newVal := vpStr("newValue", 2)
	want, _ := vpModelMarshalIndent(map[string]string{"k": newVal}, "", "")
	vpStep = 0
	vpCrashAt = vpLen("crashBeforeStep", 0, 8)
	crashed := vpPanics(func() {
		err := s.add("k", newVal)
		vpAssert(err == nil, "save_succeeds_without_io_errors")
	})
	got, ok := vpFS[target]
	if !crashed {
		vpAssert(ok && bytes.Equal(got, want), "completed_save_stores_the_new_content")
		vpAssert(len(vpFS) == 1, "completed_save_leaves_no_other_file")
		vpReach("completed")
		return
	}
	vpReach("crashed")
	vpAssert(ok && (bytes.Equal(got, old) || bytes.Equal(got, want)), "after_a_crash_the_storage_file_holds_the_previous_or_the_new_content")
}
