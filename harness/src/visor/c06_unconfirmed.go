package visor

import (
	"github.com/skycoin/skycoin/src/cipher"
	"github.com/skycoin/skycoin/src/coin"
	"github.com/skycoin/skycoin/src/params"
	"github.com/skycoin/skycoin/src/transaction"
	"github.com/skycoin/skycoin/src/visor/dbutil"
)

// C06 — the unconfirmed pool over the key/value model: admission, re-submission,
// removal on block execution, invalid-removal and flag refresh.

type vpPoolChain struct {
	Blockchainer
	head *coin.SignedBlock
	// verdict per transaction marker for the combined soft+hard check: 0 ok, 1 soft, 2 hard, 3 other error
	verdict [2]int
	// verdict for the hard-only check: 0 ok, 2 hard, 3 other error
	hardVerdict [2]int
}

func (c *vpPoolChain) Head(tx *dbutil.Tx) (*coin.SignedBlock, error) { return c.head, nil }
func (c *vpPoolChain) VerifySingleTxnSoftHardConstraints(tx *dbutil.Tx, txn coin.Transaction, d params.Distribution, v params.VerifyTxn, s transaction.TxnSignedFlag) (*coin.SignedBlock, coin.UxArray, error) {
	switch c.verdict[vpMark(&txn)] {
	case 1:
		return nil, nil, transaction.NewErrTxnViolatesSoftConstraint(vpErrStore)
	case 2:
		return nil, nil, transaction.NewErrTxnViolatesHardConstraint(vpErrStore)
	case 3:
		return nil, nil, vpErrStore
	}
	return c.head, nil, nil
}
func (c *vpPoolChain) VerifySingleTxnHardConstraints(tx *dbutil.Tx, txn coin.Transaction, s transaction.TxnSignedFlag) error {
	switch c.hardVerdict[vpMark(&txn)] {
	case 2:
		return transaction.NewErrTxnViolatesHardConstraint(vpErrStore)
	case 3:
		return vpErrStore
	}
	return nil
}

func vpPoolTxn(i int) coin.Transaction {
	var t coin.Transaction
	t.In = make([]cipher.SHA256, 1)
	t.In[0][0] = byte(0x40 + i)
	t.Sigs = make([]cipher.Sig, 1)
	t.Out = make([]coin.TransactionOutput, 1)
	t.Out[0].Hours = uint64(i) // marker
	t.Out[0].Coins = vpU64("coins")
	t.InnerHash[0] = byte(i + 1)
	return t
}

// flagOf reads the stored validity flag of transaction i: -1 if absent
func vpFlagOf(utp *UnconfirmedTransactionPool, t *coin.Transaction) int {
	u, err := utp.Get(nil, t.Hash())
	vpAssert(err == nil, "pool_readable")
	if u == nil {
		return -1
	}
	return int(u.IsValid)
}

//vp:prop C06
//vp:bounds 2 transactions; history: inject A (free verdict), optionally re-inject A (free verdict), inject B (free verdict), then one of: refresh (free new verdicts), remove-invalid (free hard verdicts), removal on execution of a block holding A, optionally B and a transaction unknown to this node, in any order; every verdict in {ok, soft violation, hard violation, other error}
//vp:assume bolt replaced by a key/value model at the dbutil seam; transaction ids are concrete distinct tags; rule checking summarised by free per-transaction verdicts (C09/C11)
//vp:rule (*github.com/skycoin/skycoin/src/coin.Transaction).Hash model:vpModelTxnHashTag
//vp:rule github.com/skycoin/skycoin/src/visor/dbutil.GetBucketValueNoCopy model:vpKVGet
//vp:rule github.com/skycoin/skycoin/src/visor/dbutil.GetBucketValue model:vpKVGetCopy
//vp:rule github.com/skycoin/skycoin/src/visor/dbutil.PutBucketValue model:vpKVPut
//vp:rule github.com/skycoin/skycoin/src/visor/dbutil.Delete model:vpKVDelete
//vp:rule github.com/skycoin/skycoin/src/visor/dbutil.BucketHasKey model:vpKVHas
//vp:rule github.com/skycoin/skycoin/src/visor/dbutil.ForEach model:vpKVForEach
//vp:rule github.com/skycoin/skycoin/src/visor/dbutil.Len model:vpKVLen
//vp:rule github.com/skycoin/skycoin/src/visor/dbutil.IsEmpty model:vpKVIsEmpty
//vp:rule github.com/skycoin/skycoin/src/visor/dbutil.Reset model:vpKVResetBucket
//vp:noreplay the database and the chain are models
//vp:unwind 60
func vpH_C06_PoolHistory() {
	vpKVReset()
	chain := &vpPoolChain{head: &coin.SignedBlock{}}
	chain.head.Head.Time = vpU64("headTime")
	chain.head.Head.BkSeq = 7
	utp := &UnconfirmedTransactionPool{txns: &unconfirmedTxns{}, unspent: &txnUnspents{}}
	var txns [2]coin.Transaction
	txns[0], txns[1] = vpPoolTxn(0), vpPoolTxn(1)
	var d params.Distribution
	var vparams params.VerifyTxn
	expect := [2]int{-1, -1} // expected stored flag, -1 absent

	inject := func(i int) {
		v := vpLen("verdict", 0, 3)
		chain.verdict[i] = v
		wasKnown := expect[i] >= 0
		known, softErr, err := utp.InjectTransaction(nil, chain, txns[i], d, vparams)
		switch v {
		case 0:
			vpAssert(err == nil && softErr == nil && known == wasKnown, "admissible_transaction_is_stored_and_reported")
			expect[i] = 1
		case 1:
			vpAssert(err == nil && softErr != nil && known == wasKnown, "soft_violation_is_stored_and_reported_as_soft")
			expect[i] = 0
		default:
			vpAssert(err != nil && !known && softErr == nil, "hard_violation_or_failure_is_refused")
		}
		vpAssert(vpFlagOf(utp, &txns[i]) == expect[i], "stored_flag_follows_the_admission_verdict")
	}
	inject(0)
	if vpBool("resubmit") {
		inject(0)
	}
	inject(1)
	n, _ := utp.Len(nil)
	want := 0
	for i := range expect {
		if expect[i] >= 0 {
			want++
		}
	}
	vpAssert(n == uint64(want), "resubmission_does_not_duplicate")

	switch vpLen("operation", 0, 2) {
	case 0: // refresh
		var before [2]int
		copy(before[:], expect[:])
		for i := range txns {
			chain.verdict[i] = vpLen("refreshVerdict", 0, 2)
		}
		nowValid, err := utp.Refresh(nil, chain, d, vparams)
		vpAssert(err == nil, "refresh_succeeds")
		flipped := 0
		for i := range txns {
			if before[i] < 0 {
				vpAssert(vpFlagOf(utp, &txns[i]) == -1, "refresh_adds_nothing")
				continue
			}
			wantFlag := 0
			if chain.verdict[i] == 0 {
				wantFlag = 1
			}
			vpAssert(vpFlagOf(utp, &txns[i]) == wantFlag, "flags_match_a_fresh_recheck")
			if before[i] == 0 && wantFlag == 1 {
				flipped++
			}
		}
		vpAssert(len(nowValid) == flipped, "refresh_reports_the_transactions_that_became_valid")
	case 1: // remove invalid
		for i := range txns {
			chain.hardVerdict[i] = [2]int{0, 2}[vpLen("hardVerdict", 0, 1)]
		}
		removed, err := utp.RemoveInvalid(nil, chain)
		vpAssert(err == nil, "remove_invalid_succeeds")
		cnt := 0
		for i := range txns {
			if expect[i] >= 0 && chain.hardVerdict[i] == 2 {
				cnt++
				vpAssert(vpFlagOf(utp, &txns[i]) == -1, "hard_invalid_transaction_removed")
			} else {
				vpAssert(vpFlagOf(utp, &txns[i]) == expect[i], "other_transactions_kept_unchanged")
			}
		}
		vpAssert(len(removed) == cnt, "remove_invalid_reports_what_it_removed")
	case 2: // a block containing A (and possibly B and a transaction this node never saw, in any order) was executed
		unknown := vpPoolTxn(2)
		inclB, inclU := vpBool("blockHasB"), vpBool("blockHasUnknown")
		list := []cipher.SHA256{txns[0].Hash()}
		if inclB {
			if vpBool("bFirst") {
				list = []cipher.SHA256{txns[1].Hash(), txns[0].Hash()}
			} else {
				list = append(list, txns[1].Hash())
			}
		}
		if inclU {
			pos := vpLen("unknownPosition", 0, len(list))
			list = append(list[:pos:pos], append([]cipher.SHA256{unknown.Hash()}, list[pos:]...)...)
		}
		err := utp.RemoveTransactions(nil, list)
		vpAssert(err == nil, "removal_succeeds")
		vpAssert(vpFlagOf(utp, &txns[0]) == -1, "transaction_in_an_accepted_block_leaves_the_pool")
		if inclB {
			vpAssert(vpFlagOf(utp, &txns[1]) == -1, "transaction_in_an_accepted_block_leaves_the_pool")
		} else {
			vpAssert(vpFlagOf(utp, &txns[1]) == expect[1], "other_transaction_stays")
		}
		n2, _ := utp.Len(nil)
		left := 0
		if !inclB && expect[1] >= 0 {
			left = 1
		}
		vpAssert(n2 == uint64(left), "pool_size_after_block_removal")
	}
}
