package visor

import (
	"github.com/skycoin/skycoin/src/cipher"
	"github.com/skycoin/skycoin/src/coin"
	"github.com/skycoin/skycoin/src/transaction"
	"github.com/skycoin/skycoin/src/visor/blockdb"
	"github.com/skycoin/skycoin/src/visor/dbutil"
)

// C02-H1 / C05-H3 — Blockchain.processTransactions: a block's transactions are
// accepted only if every input is unspent at the head and no output is spent
// twice in the block; in arbitrating (publisher) mode conflicting or invalid
// transactions are dropped, keeping the earlier one in fee order.

type vpUtxoPool struct {
	blockdb.UnspentPooler
	ids     [3]cipher.SHA256
	present [3]bool
	taken   [3]bool // some new output id collides with this pool entry? (never: Contains is answered from ids)
}

func (p *vpUtxoPool) has(h cipher.SHA256) bool {
	for i := range p.ids {
		if p.ids[i] == h && p.present[i] {
			return true
		}
	}
	return false
}

func (p *vpUtxoPool) GetArray(tx *dbutil.Tx, hs []cipher.SHA256) (coin.UxArray, error) {
	out := make(coin.UxArray, len(hs))
	for i, h := range hs {
		if !p.has(h) {
			return nil, blockdb.NewErrUnspentNotExist("missing")
		}
		out[i].Body.SrcTransaction = h // marker only
	}
	return out, nil
}

func (p *vpUtxoPool) Contains(tx *dbutil.Tx, h cipher.SHA256) (bool, error) { return p.has(h), nil }

type vpTxStore struct {
	chainStore
	head *coin.SignedBlock
	pool *vpUtxoPool
}

func (s *vpTxStore) Head(tx *dbutil.Tx) (*coin.SignedBlock, error) { return s.head, nil }
func (s *vpTxStore) UnspentPool() blockdb.UnspentPooler            { return s.pool }

// per-transaction rule verdict (C01/C09 cover the rules themselves): valid, or a hard violation
var vpTxnInvalid [3]bool
var vpTxnMarks [3]uint64

func vpModelVerifyBlockTxn(txn coin.Transaction, head coin.BlockHeader, uxIn coin.UxArray) error {
	for i := range vpTxnMarks {
		if txn.Out[0].Hours == vpTxnMarks[i] && vpTxnInvalid[i] {
			return transaction.NewErrTxnViolatesHardConstraint(vpErrStore)
		}
	}
	return nil
}

// fee order is the subject of vpH_C05_SortOrder: here the submitted order is already the fee order
func vpModelSortIdentity(txns coin.Transactions, calc coin.FeeCalculator) (coin.Transactions, error) {
	return txns, nil
}

//vp:prop C02 C05
//vp:bounds 1..2 transactions of 1..2 inputs (thorough: also 3 transactions of 1 input) drawn from 3 output ids (each unspent or not at the head, free) and 1 distinct output; per-transaction rule verdict free; follower (strict) and publisher (arbitrating) mode
//vp:assume SHA256 collision free; transaction.VerifyBlockTxnConstraints summarised by a free per-transaction verdict; in arbitrating mode the submitted order is the fee order (coin.SortTransactions is checked by vpH_C05_SortOrder)
//vp:rule github.com/skycoin/skycoin/src/transaction.VerifyBlockTxnConstraints model:vpModelVerifyBlockTxn
//vp:rule github.com/skycoin/skycoin/src/coin.SortTransactions model:vpModelSortIdentity
//vp:noreplay stores are fakes
//vp:unwind 40
func vpH_C02_ProcessTransactions() {
	pool := &vpUtxoPool{}
	for i := range pool.ids {
		pool.ids[i][0] = byte(i + 1)
		pool.present[i] = vpBool("unspent")
	}
	head := &coin.SignedBlock{}
	head.Head.Time = vpU64("headTime")
	head.Head.BkSeq = 5 // not the genesis block (whose successors use a null source transaction, a legacy quirk)
	arbitrating := vpBool("arbitrating")
	bc := Blockchain{store: &vpTxStore{head: head, pool: pool}, cfg: BlockchainConfig{Arbitrating: arbitrating}}
	maxTx := 2
	if vpThorough() {
		maxTx = 3
	}
	n := vpLen("nTxns", 1, maxTx)
	txns := make(coin.Transactions, n)
	inIdx := make([][]int, n)
	for i := range txns {
		k := 1
		if n < 3 {
			k = vpLen("nIn", 1, 2) // three transactions (thorough tier): one input each
		}
		txns[i].In = make([]cipher.SHA256, k)
		txns[i].Sigs = make([]cipher.Sig, k)
		inIdx[i] = make([]int, k)
		for j := 0; j < k; j++ {
			inIdx[i][j] = vpLen("input", 0, 2)
			txns[i].In[j] = pool.ids[inIdx[i][j]]
		}
		txns[i].Out = make([]coin.TransactionOutput, 1)
		txns[i].Out[0].Coins = 1000
		txns[i].Out[0].Hours = uint64(i + 1) // the marker identifies the transaction
		vpTxnMarks[i] = txns[i].Out[0].Hours
		vpTxnInvalid[i] = vpBool("violatesHardRule")
		if k == 2 && inIdx[i][0] == inIdx[i][1] {
			vpAssume(vpTxnInvalid[i]) // a transaction spending an output twice violates the rules (C09)
		}
		for x := range pool.ids { // A-HASH: a new output id is not the id of a different, existing output
			vpAssume(txns[i].Out[0].UxID(txns[i].Hash()) != pool.ids[x])
		}
	}

	got, err := bc.processTransactions(nil, txns)
	if err != nil {
		vpReach("refused")
		if !arbitrating {
			// strict mode refuses only for a reason
			bad := false
			var used [3]int
			for i := range txns {
				if vpTxnInvalid[i] {
					bad = true
				}
				for _, x := range inIdx[i] {
					used[x]++
					if !pool.present[x] {
						bad = true
					}
				}
			}
			for x := range used {
				if used[x] > 1 {
					bad = true
				}
			}
			dupOut := false
			for i := range txns {
				for q := 0; q < i; q++ {
					if txns[i].Out[0].UxID(txns[i].Hash()) == txns[q].Out[0].UxID(txns[q].Hash()) {
						dupOut = true
					}
				}
			}
			vpAssert(bad || dupOut, "strict_mode_refuses_only_invalid_missing_or_conflicting_spends")
		}
		return
	}
	vpReach("accepted")
	// map the result back to the submitted transactions (by marker)
	kept := make([]int, len(got))
	for g := range got {
		kept[g] = -1
		for i := range txns {
			if got[g].Out[0].Hours == vpTxnMarks[i] {
				kept[g] = i
			}
		}
		vpAssert(kept[g] >= 0, "result_contains_only_submitted_transactions")
		if g > 0 && kept[g] >= 0 && kept[g-1] >= 0 {
			vpAssert(kept[g] > kept[g-1], "result_keeps_the_order")
		}
	}
	var used [3]int
	for g := range got {
		i := kept[g]
		if i < 0 {
			continue
		}
		vpAssert(!vpTxnInvalid[i], "no_rule_violating_transaction_accepted")
		for _, x := range inIdx[i] {
			vpAssert(pool.present[x], "every_input_is_unspent_at_the_head")
			used[x]++
		}
	}
	for x := range used {
		vpAssert(used[x] <= 1, "no_output_spent_twice_in_the_block")
	}
	if !arbitrating {
		vpAssert(len(got) == n, "strict_mode_returns_the_block_unchanged")
	} else {
		// arbitration: a dropped transaction is invalid, spends a missing output, or
		// conflicts with an earlier transaction that passed its own checks
		for i := range txns {
			isKept := false
			for g := range got {
				if kept[g] == i {
					isKept = true
				}
			}
			if isKept {
				continue
			}
			reason := vpTxnInvalid[i]
			for _, x := range inIdx[i] {
				if !pool.present[x] {
					reason = true
				}
				for q := 0; q < i; q++ {
					okq := !vpTxnInvalid[q]
					for _, y := range inIdx[q] {
						if !pool.present[y] {
							okq = false
						}
					}
					for _, y := range inIdx[q] {
						if y == x && okq {
							reason = true
						}
					}
				}
				// a transaction spending the same output twice conflicts with itself? (rule check, summarised)
			}
			for q := 0; q < i; q++ {
				if txns[i].Out[0].UxID(txns[i].Hash()) == txns[q].Out[0].UxID(txns[q].Hash()) {
					reason = true
				}
			}
			vpAssert(reason, "arbitration_drops_only_invalid_or_later_conflicting_transactions")
		}
	}
}

// ---- publisher (arbitrating) mode: what is stored is the filtered block --------

type vpArbStore struct {
	vpTxStore
	genesis *coin.SignedBlock
	added   []*coin.SignedBlock
}

func (s *vpArbStore) Len(tx *dbutil.Tx) (uint64, error) { return 5, nil }
func (s *vpArbStore) GetGenesisBlock(tx *dbutil.Tx) (*coin.SignedBlock, error) {
	return s.genesis, nil
}
func (s *vpArbStore) AddBlock(tx *dbutil.Tx, b *coin.SignedBlock) error {
	cp := *b
	s.added = append(s.added, &cp)
	return nil
}

type vpArbPool struct {
	vpUtxoPool
	uxHash cipher.SHA256
}

var vpArbPoolCur *vpArbPool

func (s *vpArbStore) UnspentPool() blockdb.UnspentPooler { return vpArbPoolCur }

func (p *vpArbPool) GetUxHash(tx *dbutil.Tx) (cipher.SHA256, error) { return p.uxHash, nil }

//vp:prop C01 C02 C04
//vp:bounds publisher (arbitrating) mode: a header-valid block of 2 transactions (1 input each, drawn from 3 output ids that are unspent or not, free) with free per-transaction rule verdicts
//vp:assume as vpH_C02_ProcessTransactions; block and transaction hashes uninterpreted
//vp:rule github.com/skycoin/skycoin/src/transaction.VerifyBlockTxnConstraints model:vpModelVerifyBlockTxn
//vp:rule github.com/skycoin/skycoin/src/coin.SortTransactions model:vpModelSortIdentity
//vp:noreplay stores are fakes
//vp:unwind 40
func vpH_C02_ExecuteBlockArbitrating() {
	pool := &vpArbPool{}
	for i := range pool.ids {
		pool.ids[i][0] = byte(i + 1)
		pool.present[i] = vpBool("unspent")
	}
	pool.uxHash[0] = 0x33
	head := &coin.SignedBlock{}
	head.Head.Time = 100
	head.Head.BkSeq = 5
	store := &vpArbStore{genesis: &coin.SignedBlock{}}
	store.head, store.pool = head, &pool.vpUtxoPool
	store.genesis.Head.Time = 1
	bc := &Blockchain{store: store, cfg: BlockchainConfig{Arbitrating: true}}
	// UnspentPool must answer GetUxHash as well
	store.vpTxStore.pool = &pool.vpUtxoPool
	vpArbPoolCur = pool

	var sb coin.SignedBlock
	sb.Body.Transactions = make(coin.Transactions, 2)
	inIdx := [2]int{}
	for i := range sb.Body.Transactions {
		t := &sb.Body.Transactions[i]
		inIdx[i] = vpLen("input", 0, 2)
		t.In = []cipher.SHA256{pool.ids[inIdx[i]]}
		t.Sigs = make([]cipher.Sig, 1)
		t.Out = []coin.TransactionOutput{{Coins: 1000, Hours: uint64(i + 1)}}
		vpTxnMarks[i] = uint64(i + 1)
		vpTxnInvalid[i] = vpBool("violatesHardRule")
		for x := range pool.ids {
			vpAssume(t.Out[0].UxID(t.Hash()) != pool.ids[x])
		}
	}
	sb.Head.BkSeq = 6
	sb.Head.Time = 200
	sb.Head.PrevHash = head.HashHeader()
	sb.Head.BodyHash = sb.Body.Hash()
	sb.Head.UxHash = pool.uxHash

	err := bc.ExecuteBlock(nil, &sb)
	if err != nil {
		vpReach("refused")
		return
	}
	vpReach("stored")
	vpAssert(len(store.added) == 1, "stored_once")
	var used [3]int
	for _, t := range store.added[0].Body.Transactions {
		i := int(t.Out[0].Hours) - 1
		vpAssert(!vpTxnInvalid[i], "stored_block_contains_no_rule_violating_transaction")
		vpAssert(pool.present[inIdx[i]], "stored_block_spends_only_unspent_outputs")
		used[inIdx[i]]++
	}
	for x := range used {
		vpAssert(used[x] <= 1, "stored_block_spends_no_output_twice")
	}
}
