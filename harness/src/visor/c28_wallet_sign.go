package visor

import (
	"github.com/skycoin/skycoin/src/cipher"
	"github.com/skycoin/skycoin/src/coin"
	"github.com/skycoin/skycoin/src/params"
	"github.com/skycoin/skycoin/src/transaction"
	"github.com/skycoin/skycoin/src/visor/dbutil"
	"github.com/skycoin/skycoin/src/visor/historydb"
	"github.com/skycoin/skycoin/src/wallet"
)

// C28-H3 / C13 wiring — Visor.WalletSignTransaction (behind
// /api/v2/wallet/transaction/sign) answers every encoded transaction with a
// verdict: whatever the numbers of signatures and inputs, whichever indexes
// are named, it returns a transaction or an error and never panics.

type vpSignChain struct {
	Blockchainer
	headTime uint64
}

// contract of the real verification (C09): a nil verdict is only given to a
// transaction with as many signatures as inputs, at least one input and output
func (c *vpSignChain) VerifySingleTxnSoftHardConstraints(tx *dbutil.Tx, txn coin.Transaction, d params.Distribution, v params.VerifyTxn, signed transaction.TxnSignedFlag) (*coin.SignedBlock, coin.UxArray, error) {
	if len(txn.Sigs) != len(txn.In) || len(txn.In) == 0 || len(txn.Out) == 0 {
		return nil, nil, transaction.NewErrTxnViolatesHardConstraint(vpErrStore)
	}
	if vpBool("ruleViolation") {
		return nil, nil, transaction.NewErrTxnViolatesSoftConstraint(vpErrStore)
	}
	return nil, nil, nil
}
func (c *vpSignChain) Time(tx *dbutil.Tx) (uint64, error) { return c.headTime, nil }

type vpSignHistory struct {
	Historyer
	outs    []historydb.UxOut
	outsErr error
}

func (h *vpSignHistory) GetUxOuts(tx *dbutil.Tx, ids []cipher.SHA256) ([]historydb.UxOut, error) {
	return h.outs, h.outsErr
}

type vpSignWallet struct {
	wallet.Wallet
	entries wallet.Entries
}

func (w *vpSignWallet) Type() string                                         { return wallet.WalletTypeDeterministic }
func (w *vpSignWallet) IsEncrypted() bool                                    { return false }
func (w *vpSignWallet) GetEntries(o ...wallet.Option) (wallet.Entries, error) { return w.entries, nil }

var vpTheSignWallet *vpSignWallet

func vpModelViewSecrets(s *wallet.Service, id string, pw []byte, f func(wallet.Wallet) error) error {
	return f(vpTheSignWallet)
}

//vp:prop C28 C13
//vp:bounds transaction with 0..2 signatures (null or free), 0..2 inputs and 1 output chosen independently; sign-index list empty or one index 0..2; the wallet owns the spent outputs or not; history returns one output per input or an error
//vp:assume the rule check grants a nil verdict only to transactions with |sigs| = |inputs| >= 1 and an output (C09) and is otherwise arbitrary; the wallet service hands out an unlocked deterministic wallet; signing is an uninterpreted function; CoinHours summarised by its contract
//vp:rule (*github.com/skycoin/skycoin/src/visor/dbutil.DB).View model:vpModelDBView
//vp:rule (*github.com/skycoin/skycoin/src/wallet.Service).ViewSecrets model:vpModelViewSecrets
//vp:rule (*github.com/skycoin/skycoin/src/coin.UxOut).CoinHours model:vpModelCoinHours
//vp:rule github.com/skycoin/skycoin/src/cipher.SignHash uf:signhash:noerr
//vp:noreplay stores and wallet are fakes
func vpH_C28_WalletSignNoPanic() {
	nS, nI := vpLen("nSigs", 0, 2), vpLen("nIn", 0, 2)
	var txn coin.Transaction
	txn.Sigs = make([]cipher.Sig, nS)
	for i := range txn.Sigs {
		if vpBool("presigned") {
			vpFill("sig", &txn.Sigs[i])
		}
	}
	txn.In = make([]cipher.SHA256, nI)
	txn.Out = make([]coin.TransactionOutput, 1)
	vpFill("out", &txn.Out[0])
	var owner, foreign cipher.Address
	owner.Key[0], foreign.Key[0] = 1, 2
	houts := make([]historydb.UxOut, nI)
	for i := range houts {
		txn.In[i][0] = byte(i + 1)
		houts[i].Out.Body.Address = owner
		if vpBool("foreignOutput") {
			houts[i].Out.Body.Address = foreign
		}
		houts[i].Out.Body.Coins = vpU64("uxCoins")
	}
	txn.InnerHash = txn.HashInner()
	var idx []int
	if vpBool("indexGiven") {
		idx = []int{vpLen("index", 0, 2)}
	}
	hist := &vpSignHistory{outs: houts}
	if vpBool("histOutsErr") {
		hist.outs, hist.outsErr = nil, vpErrStore
	}
	vpTheSignWallet = &vpSignWallet{entries: wallet.Entries{{Address: owner}}}
	vpFill("secret", &vpTheSignWallet.entries[0].Secret)
	vs := &Visor{db: &dbutil.DB{}, blockchain: &vpSignChain{headTime: vpU64("headTime")}, history: hist}

	signed, inputs, err := vs.WalletSignTransaction("w", nil, &txn, idx)
	if err != nil {
		vpAssert(signed == nil && inputs == nil, "failure_returns_nothing")
		vpReach("refused")
		return
	}
	vpAssert(signed != nil && len(inputs) == nI && len(signed.Sigs) == nI, "success_returns_a_transaction_with_one_signature_per_input")
	vpReach("signed")
}
