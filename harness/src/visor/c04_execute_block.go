package visor

import (
	"github.com/skycoin/skycoin/src/cipher"
	"github.com/skycoin/skycoin/src/coin"
	"github.com/skycoin/skycoin/src/visor/blockdb"
	"github.com/skycoin/skycoin/src/visor/dbutil"
)

// C04-H2 — Visor.executeSignedBlock drives the real Blockchain.ExecuteBlock /
// processBlock / verifyBlockHeader / processTransactions / verifyUxHash over a
// fake chain store; whatever is handed to AddBlock must be the submitted block,
// signed by the publisher over exactly the stored header, and extend the head.

type vpStorePool struct {
	blockdb.UnspentPooler
	uxHash    cipher.SHA256
	uxHashErr error
}

func (p *vpStorePool) GetUxHash(tx *dbutil.Tx) (cipher.SHA256, error) { return p.uxHash, p.uxHashErr }
func (p *vpStorePool) Contains(tx *dbutil.Tx, h cipher.SHA256) (bool, error) {
	return false, nil
}
func (p *vpStorePool) GetArray(tx *dbutil.Tx, hs []cipher.SHA256) (coin.UxArray, error) {
	return make(coin.UxArray, len(hs)), nil
}

type vpFakeStore struct {
	chainStore
	length  uint64
	head    *coin.SignedBlock
	genesis *coin.SignedBlock
	pool    *vpStorePool
	added   []*coin.SignedBlock
}

func (s *vpFakeStore) Len(tx *dbutil.Tx) (uint64, error)             { return s.length, nil }
func (s *vpFakeStore) Head(tx *dbutil.Tx) (*coin.SignedBlock, error) { return s.head, nil }
func (s *vpFakeStore) UnspentPool() blockdb.UnspentPooler            { return s.pool }
func (s *vpFakeStore) GetGenesisBlock(tx *dbutil.Tx) (*coin.SignedBlock, error) {
	return s.genesis, nil
}
func (s *vpFakeStore) AddBlock(tx *dbutil.Tx, b *coin.SignedBlock) error {
	cp := *b
	s.added = append(s.added, &cp)
	return nil
}

type vpFakeUnconfirmed struct {
	UnconfirmedTransactionPooler
	removeCalls int
}

func (u *vpFakeUnconfirmed) RemoveTransactions(tx *dbutil.Tx, txns []cipher.SHA256) error {
	u.removeCalls++
	return nil
}

type vpRecHistory struct {
	Historyer
	parseCalls int
}

func (h *vpRecHistory) ParseBlock(tx *dbutil.Tx, b coin.Block) error {
	h.parseCalls++
	return nil
}

func vpFreeHeader(tag string, h *coin.BlockHeader) {
	h.Version = vpU32(tag + ".version")
	h.Time = vpU64(tag + ".time")
	h.BkSeq = vpU64(tag + ".seq")
	h.Fee = vpU64(tag + ".fee")
	vpFill(tag+".prev", &h.PrevHash)
	vpFill(tag+".body", &h.BodyHash)
	vpFill(tag+".uxhash", &h.UxHash)
}

//vp:prop C04
//vp:bounds submitted block with every header field and the signature free, 0..2 transactions of 1 input x 1 output with free contents; head block with free header; non-empty chain (length > 0); the node's unspent checksum free; non-arbitrating (follower) mode
//vp:assume SHA256 collision free (A-HASH); publisher-signature verification (cipher.VerifyPubKeySignedHash) is an uninterpreted predicate of (pubkey, signature, header hash) (A-SIG), and so are the other signature checks of package cipher (recoverability, address ownership), each a separate predicate; per-transaction rule checking (transaction.VerifyBlockTxnConstraints) summarised as an arbitrary verdict (C01/C09 cover it)
//vp:rule github.com/skycoin/skycoin/src/cipher.VerifyPubKeySignedHash uf:pubkeysigok
//vp:rule github.com/skycoin/skycoin/src/cipher.VerifySignatureRecoverPubKey uf:sigrecover
//vp:rule github.com/skycoin/skycoin/src/cipher.VerifyAddressSignedHash uf:addrsigok
//vp:rule github.com/skycoin/skycoin/src/transaction.VerifyBlockTxnConstraints havoc
//vp:noreplay stores are fakes and signatures uninterpreted; counterexamples are confirmed by a native test on a real database
func vpH_C04_ExecuteSignedBlock() {
	var pubkey cipher.PubKey
	vpFill("pubkey", &pubkey)
	head := &coin.SignedBlock{}
	vpFreeHeader("head", &head.Head)
	genesis := &coin.SignedBlock{}
	vpFreeHeader("genesis", &genesis.Head)
	pool := &vpStorePool{}
	vpFill("nodeUxHash", &pool.uxHash)
	store := &vpFakeStore{length: 2, head: head, genesis: genesis, pool: pool}
	bc := &Blockchain{store: store, cfg: BlockchainConfig{Pubkey: pubkey}}
	unc := &vpFakeUnconfirmed{}
	hist := &vpRecHistory{}
	vs := &Visor{blockchain: bc, unconfirmed: unc, history: hist}
	vs.Config.BlockchainPubkey = pubkey

	var sb coin.SignedBlock
	vpFreeHeader("block", &sb.Head)
	vpFill("sig", &sb.Sig)
	nTx := vpLen("nTxns", 0, 2)
	sb.Body.Transactions = make(coin.Transactions, nTx)
	for i := range sb.Body.Transactions {
		t := &sb.Body.Transactions[i]
		t.Length = vpU32("txn.length")
		vpFill("txn.inner", &t.InnerHash)
		t.Sigs = make([]cipher.Sig, 1)
		t.In = make([]cipher.SHA256, 1)
		t.Out = make([]coin.TransactionOutput, 1)
		vpFill("txn.in", &t.In[0])
		vpFill("txn.out", &t.Out[0])
	}
	submitted := sb
	submittedHash := sb.HashHeader()

	err := vs.executeSignedBlock(nil, sb)

	if err != nil {
		vpAssert(len(store.added) == 0, "rejected_block_not_stored")
		vpAssert(unc.removeCalls == 0 && hist.parseCalls == 0, "rejected_block_touches_neither_pool_nor_history")
		vpReach("rejected")
		return
	}
	vpReach("accepted")
	vpAssert(len(store.added) == 1, "accepted_block_stored_exactly_once")
	st := store.added[0]
	vpAssert(cipher.VerifyPubKeySignedHash(pubkey, st.Sig, st.HashHeader()) == nil, "stored_header_is_the_one_the_publisher_signed")
	vpAssert(st.HashHeader() == submittedHash && st.Sig == submitted.Sig, "stored_block_is_the_submitted_block")
	vpAssert(st.Head.BkSeq == head.Head.BkSeq+1, "sequence_is_head_plus_one")
	vpAssert(st.Head.Time > head.Head.Time, "time_later_than_head")
	vpAssert(st.Head.PrevHash == head.HashHeader(), "parent_is_current_head")
	vpAssert(submitted.Head.PrevHash == head.HashHeader(), "submitted_block_names_current_head_as_parent")
	vpAssert(st.Head.BodyHash == st.Body.Hash(), "body_hash_matches_transactions")
	vpAssert(st.Head.UxHash == pool.uxHash, "unspent_checksum_matches_node")
	vpAssert(st.HashHeader() != genesis.HashHeader(), "second_genesis_refused")
	vpAssert(nTx > 0, "empty_block_refused")
}
