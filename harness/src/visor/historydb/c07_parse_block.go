package historydb

import (
	"github.com/skycoin/skycoin/src/cipher"
	"github.com/skycoin/skycoin/src/coin"
)

// C07-H2 — the transaction history follows the chain: after HistoryDB.ParseBlock
// every transaction of the block is stored with its block number, every spent
// output carries the spending block and transaction, every created output is
// stored and listed for its owner, and an address's transaction list holds
// exactly the transactions that spend one of its outputs or pay to it.

func vpModelUxBodyHash(b *coin.UxBody) cipher.SHA256 {
	var h cipher.SHA256
	h[0], h[1], h[2], h[3], h[31] = b.SrcTransaction[0], b.SrcTransaction[1], b.Address.Key[0], byte(b.Hours), 0x99
	return h
}

func vpModelTxnHash(t *coin.Transaction) cipher.SHA256 {
	var h cipher.SHA256
	h[0], h[1] = t.InnerHash[0], 0x55
	return h
}

func vpHas(list []cipher.SHA256, h cipher.SHA256) int {
	n := 0
	for _, x := range list {
		if x == h {
			n++
		}
	}
	return n
}

//vp:prop C07
//vp:bounds history holding 2..3 earlier outputs owned by 2 addresses (free owner, coins); a block of 1..2 transactions, each spending 1..2 of them (distinct) and creating 1 output with a free owner (of 2), coins and hours
//vp:assume the bolt buckets are replaced by a key/value model at the dbutil seam; output and transaction ids are concrete and pairwise distinct (collision freedom); the earlier outputs were stored by the real uxOuts.put
//vp:rule (*github.com/skycoin/skycoin/src/coin.UxBody).Hash model:vpModelUxBodyHash
//vp:rule (*github.com/skycoin/skycoin/src/coin.Transaction).Hash model:vpModelTxnHash
//vp:rule github.com/skycoin/skycoin/src/visor/dbutil.GetBucketValueNoCopy model:vpKVGet
//vp:rule github.com/skycoin/skycoin/src/visor/dbutil.GetBucketValue model:vpKVGetCopy
//vp:rule github.com/skycoin/skycoin/src/visor/dbutil.PutBucketValue model:vpKVPut
//vp:rule github.com/skycoin/skycoin/src/visor/dbutil.Delete model:vpKVDelete
//vp:rule github.com/skycoin/skycoin/src/visor/dbutil.BucketHasKey model:vpKVHas
//vp:rule github.com/skycoin/skycoin/src/visor/dbutil.ForEach model:vpKVForEach
//vp:rule github.com/skycoin/skycoin/src/visor/dbutil.Len model:vpKVLen
//vp:rule github.com/skycoin/skycoin/src/visor/dbutil.IsEmpty model:vpKVIsEmpty
//vp:rule github.com/skycoin/skycoin/src/visor/dbutil.Reset model:vpKVResetBucket
//vp:noreplay the database is a model
//vp:unwind 60
func vpH_C07_HistoryParseBlock() {
	vpKVReset()
	hd := New()
	var addrs [2]cipher.Address
	addrs[0].Key[0], addrs[1].Key[0] = 1, 2
	nOld := vpLen("earlierOutputs", 2, 3)
	old := make([]coin.UxOut, nOld)
	for i := range old {
		old[i].Body.SrcTransaction[0] = 0xA0
		old[i].Body.SrcTransaction[1] = byte(i)
		old[i].Body.Address = addrs[vpLen("owner", 0, 1)]
		old[i].Body.Coins = vpU64("coins")
		old[i].Body.Hours = uint64(i)
		vpAssert(hd.outputs.put(nil, UxOut{Out: old[i]}) == nil, "setup")
	}

	var b coin.Block
	b.Head.BkSeq = 9
	b.Head.Time = vpU64("blockTime")
	nT := vpLen("nTxns", 1, 2)
	b.Body.Transactions = make(coin.Transactions, nT)
	spentBy := make([]int, nOld) // transaction index + 1
	next := 0
	for t := range b.Body.Transactions {
		txn := &b.Body.Transactions[t]
		txn.InnerHash[0] = byte(0x10 + t)
		k := vpLen("nIn", 1, 2)
		vpAssume(next+k <= nOld)
		for j := 0; j < k; j++ {
			txn.In = append(txn.In, old[next].Hash())
			spentBy[next] = t + 1
			next++
		}
		txn.Out = make([]coin.TransactionOutput, 1)
		txn.Out[0].Address = addrs[vpLen("payTo", 0, 1)]
		txn.Out[0].Coins = vpU64("outCoins")
		txn.Out[0].Hours = uint64(0x40 + t)
	}

	vpAssert(hd.ParseBlock(nil, b) == nil, "block_is_parsed")

	for t := range b.Body.Transactions {
		txn := &b.Body.Transactions[t]
		got, err := hd.GetTransaction(nil, txn.Hash())
		vpAssert(err == nil && got != nil && got.BlockSeq == 9 && got.Txn.InnerHash == txn.InnerHash, "transaction_stored_with_its_block")
		created := coin.CreateUnspents(b.Head, *txn)
		for _, ux := range created {
			o, err := hd.outputs.get(nil, ux.Hash())
			vpAssert(err == nil && o != nil && o.Out == ux && o.SpentBlockSeq == 0, "created_output_stored_unspent")
			lst, err := hd.addrUx.get(nil, ux.Body.Address)
			vpAssert(err == nil && vpHas(lst, ux.Hash()) == 1, "created_output_listed_for_its_owner")
		}
	}
	for i := range old {
		o, err := hd.outputs.get(nil, old[i].Hash())
		vpAssert(err == nil && o != nil, "earlier_output_still_stored")
		if spentBy[i] > 0 {
			vpAssert(o.SpentBlockSeq == 9 && o.SpentTxnID == b.Body.Transactions[spentBy[i]-1].Hash(), "spent_output_points_to_the_spending_block_and_transaction")
		} else {
			vpAssert(o.SpentBlockSeq == 0 && o.SpentTxnID == (cipher.SHA256{}), "unspent_output_untouched")
		}
	}
	for _, a := range addrs {
		lst, err := hd.addrTxns.get(nil, a)
		vpAssert(err == nil, "address_transactions_readable")
		want := 0
		for t := range b.Body.Transactions {
			txn := &b.Body.Transactions[t]
			involved := txn.Out[0].Address == a
			for i := range old {
				if spentBy[i] == t+1 && old[i].Body.Address == a {
					involved = true
				}
			}
			if involved {
				want++
				vpAssert(vpHas(lst, txn.Hash()) == 1, "address_history_lists_every_transaction_that_spends_from_or_pays_to_it")
			} else {
				vpAssert(vpHas(lst, txn.Hash()) == 0, "address_history_lists_no_unrelated_transaction")
			}
		}
		vpAssert(len(lst) == want, "address_history_has_no_other_entries")
	}
	seq, ok, err := hd.ParsedBlockSeq(nil)
	vpAssert(err == nil && ok && seq == 9, "parsed_height_follows_the_block")
}
