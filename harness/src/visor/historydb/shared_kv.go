package historydb

//vp:shared

import (
	"bytes"

	"github.com/skycoin/skycoin/src/visor/dbutil"
)

// M-KV: a key/value model of the bolt buckets reached through the dbutil free
// functions: bucket name -> insertion-ordered entries. Keys and values may hold
// symbolic bytes; lookups compare keys byte-wise.

type vpEntry struct{ k, v []byte }

var vpStore map[string][]vpEntry

func vpKVReset() { vpStore = map[string][]vpEntry{} }

func vpKVFind(bkt string, key []byte) int {
	es := vpStore[bkt]
	for i := range es {
		if bytes.Equal(es[i].k, key) {
			return i
		}
	}
	return -1
}

func vpKVGet(tx *dbutil.Tx, bkt, key []byte) ([]byte, error) {
	i := vpKVFind(string(bkt), key)
	if i < 0 {
		return nil, nil
	}
	return vpStore[string(bkt)][i].v, nil
}

func vpKVGetCopy(tx *dbutil.Tx, bkt, key []byte) ([]byte, error) {
	v, _ := vpKVGet(tx, bkt, key)
	if v == nil {
		return nil, nil
	}
	return append([]byte{}, v...), nil
}

func vpKVPut(tx *dbutil.Tx, bkt, key, val []byte) error {
	b := string(bkt)
	k, v := append([]byte{}, key...), append([]byte{}, val...)
	if i := vpKVFind(b, key); i >= 0 {
		vpStore[b][i].v = v
		return nil
	}
	vpStore[b] = append(vpStore[b], vpEntry{k, v})
	return nil
}

func vpKVDelete(tx *dbutil.Tx, bkt, key []byte) error {
	b := string(bkt)
	if i := vpKVFind(b, key); i >= 0 {
		es := vpStore[b]
		vpStore[b] = append(append([]vpEntry{}, es[:i]...), es[i+1:]...)
	}
	return nil
}

func vpKVHas(tx *dbutil.Tx, bkt, key []byte) (bool, error) {
	return vpKVFind(string(bkt), key) >= 0, nil
}

func vpKVForEach(tx *dbutil.Tx, bkt []byte, f func(k, v []byte) error) error {
	for _, e := range vpStore[string(bkt)] {
		if err := f(e.k, e.v); err != nil {
			return err
		}
	}
	return nil
}

func vpKVLen(tx *dbutil.Tx, bkt []byte) (uint64, error) {
	return uint64(len(vpStore[string(bkt)])), nil
}

func vpKVIsEmpty(tx *dbutil.Tx, bkt []byte) (bool, error) {
	return len(vpStore[string(bkt)]) == 0, nil
}

func vpKVResetBucket(tx *dbutil.Tx, bkt []byte) error {
	delete(vpStore, string(bkt))
	return nil
}
