package visor

import (
	"github.com/skycoin/skycoin/src/cipher"
	"github.com/skycoin/skycoin/src/coin"
	"github.com/skycoin/skycoin/src/transaction"
	"github.com/skycoin/skycoin/src/visor/blockdb"
	"github.com/skycoin/skycoin/src/visor/dbutil"
	"github.com/skycoin/skycoin/src/visor/historydb"
)

// C28-H1 — Visor.VerifyTxnVerbose returns a verdict (never panics) whatever the
// stores answer, for every transaction shape.

type vpFakePool struct {
	blockdb.UnspentPooler
	outs coin.UxArray
	mode int // 0: found, 1: ErrUnspentNotExist, 2: other error
}

func (p *vpFakePool) GetArray(tx *dbutil.Tx, hashes []cipher.SHA256) (coin.UxArray, error) {
	switch p.mode {
	case 1:
		return nil, blockdb.NewErrUnspentNotExist("deadbeef")
	case 2:
		return nil, vpErrStore
	}
	return p.outs, nil
}

type vpFakeChain struct {
	Blockchainer
	head    *coin.SignedBlock
	headErr error
	pool    *vpFakePool
	prev    *coin.SignedBlock
	prevErr error
}

func (c *vpFakeChain) Head(tx *dbutil.Tx) (*coin.SignedBlock, error) { return c.head, c.headErr }
func (c *vpFakeChain) Unspent() blockdb.UnspentPooler                { return c.pool }
func (c *vpFakeChain) GetSignedBlockBySeq(tx *dbutil.Tx, seq uint64) (*coin.SignedBlock, error) {
	return c.prev, c.prevErr
}

type vpFakeHistory struct {
	Historyer
	outs    []historydb.UxOut
	outsErr error
	txn     *historydb.Transaction
	txnErr  error
}

func (h *vpFakeHistory) GetUxOuts(tx *dbutil.Tx, ids []cipher.SHA256) ([]historydb.UxOut, error) {
	return h.outs, h.outsErr
}
func (h *vpFakeHistory) GetTransaction(tx *dbutil.Tx, hash cipher.SHA256) (*historydb.Transaction, error) {
	return h.txn, h.txnErr
}

//vp:prop C28
//vp:bounds transaction with 0..2 inputs and 0..2 outputs; every documented answer of the stores: head found / error; unspent pool: all inputs found / ErrUnspentNotExist / other error; history outputs found (one per input) / error; history transaction found / unknown (nil, nil) / error; previous block found / nil / error
//vp:assume store contracts: Unspents.GetArray and HistoryDB.GetUxOuts return one output per requested id or an error; HistoryDB.GetTransaction returns (nil, nil) for an unknown hash; outputs returned for an id hash to that id
//vp:assume the three transaction.VerifySingleTxn* rule checks are summarised as arbitrary verdicts (their own robustness is C09/C11)
//vp:rule (*github.com/skycoin/skycoin/src/visor/dbutil.DB).View model:vpModelDBView
//vp:rule (*github.com/skycoin/skycoin/src/coin.UxOut).CoinHours model:vpModelCoinHours
//vp:rule github.com/skycoin/skycoin/src/transaction.VerifySingleTxnSoftConstraints havoc
//vp:rule github.com/skycoin/skycoin/src/transaction.VerifySingleTxnHardConstraints havoc
//vp:noreplay stores are fakes; the counterexample is confirmed by a dedicated native test on a real database
func vpH_C28_VerifyTxnVerboseNoPanic() {
	nIn, nOut := vpLen("nIn", 0, 2), vpLen("nOut", 0, 2)
	var txn coin.Transaction
	txn.Sigs = make([]cipher.Sig, nIn)
	txn.In = make([]cipher.SHA256, nIn)
	txn.Out = make([]coin.TransactionOutput, nOut)
	outs := make(coin.UxArray, nIn)
	houts := make([]historydb.UxOut, nIn)
	for i := range outs {
		outs[i].Head.Time = vpU64("uxTime")
		outs[i].Body.Coins = vpU64("uxCoins")
		outs[i].Body.Hours = vpU64("uxHours")
		txn.In[i] = outs[i].Hash()
		houts[i].Out = outs[i]
	}
	for i := range txn.Out {
		vpFill("out", &txn.Out[i])
	}

	chain := &vpFakeChain{pool: &vpFakePool{outs: outs, mode: vpLen("poolMode", 0, 2)}}
	if vpBool("headErr") {
		chain.headErr = vpErrStore
	} else {
		chain.head = &coin.SignedBlock{}
		chain.head.Head.Time = vpU64("headTime")
		chain.head.Head.BkSeq = vpU64("headSeq")
	}
	switch vpLen("prevMode", 0, 2) {
	case 0:
		chain.prev = &coin.SignedBlock{}
		chain.prev.Head.Time = vpU64("prevTime")
	case 1:
		chain.prevErr = vpErrStore
	}
	hist := &vpFakeHistory{}
	if vpBool("histOutsErr") {
		hist.outsErr = vpErrStore
	} else {
		hist.outs = houts
	}
	switch vpLen("histTxnMode", 0, 2) {
	case 0:
		hist.txn = &historydb.Transaction{BlockSeq: vpU64("histBlockSeq")}
	case 1:
		hist.txnErr = vpErrStore
	}

	vs := &Visor{db: &dbutil.DB{}, blockchain: chain, history: hist}
	signed := transaction.TxnSigned
	if vpBool("unsigned") {
		signed = transaction.TxnUnsigned
	}
	inputs, confirmed, err := vs.VerifyTxnVerbose(&txn, signed)
	_, _ = inputs, confirmed
	if err == nil {
		vpReach("verdict-ok")
	} else {
		vpReach("verdict-error")
	}
}

// ---- C28-H2: block range queries behind /api/v1/blocks and /api/v1/last_blocks ----

type vpRangeStore struct {
	chainStore
	n uint64 // chain holds blocks 0..n-1
}

func (s *vpRangeStore) GetSignedBlockBySeq(tx *dbutil.Tx, seq uint64) (*coin.SignedBlock, error) {
	if seq >= s.n {
		return nil, nil
	}
	b := &coin.SignedBlock{}
	b.Head.BkSeq = seq
	return b, nil
}

func (s *vpRangeStore) HeadSeq(tx *dbutil.Tx) (uint64, bool, error) {
	if s.n == 0 {
		return 0, false, nil
	}
	return s.n - 1, true, nil
}

//vp:prop C28
//vp:bounds chain of 0..3 blocks; start, end and count parameters free 64-bit
//vp:assume an allocation of more than 2^24 elements whose size comes from request parameters counts as a crash (makeslice panics or exhausts memory)
//vp:noreplay the chain store is a fake
//vp:unwind 8
func vpH_C28_BlockRangeQueriesNoPanic() {
	store := &vpRangeStore{n: uint64(vpLen("chainLen", 0, 3))}
	bc := Blockchain{store: store}
	start, end := vpU64("start"), vpU64("end")
	blocks, err := bc.GetBlocksInRange(nil, start, end)
	vpAssert(err == nil, "range_query_returns_no_error")
	for i := range blocks {
		vpAssert(blocks[i].Head.BkSeq == start+uint64(i), "range_query_returns_consecutive_blocks_from_start")
	}
	if start <= end && start < store.n {
		want := store.n - start
		if end-start+1 < want && end-start+1 != 0 {
			want = end - start + 1
		}
		vpAssert(uint64(len(blocks)) == want, "range_query_returns_every_block_in_range")
	} else {
		vpAssert(len(blocks) == 0, "empty_or_out_of_chain_range_is_empty")
	}
	num := vpU64("num")
	last, err2 := bc.GetLastBlocks(nil, num)
	vpAssert(err2 == nil, "last_blocks_returns_no_error")
	vpAssert(uint64(len(last)) <= store.n, "last_blocks_bounded_by_chain")
}
