package blockdb

import (
	"github.com/skycoin/skycoin/src/cipher"
	"github.com/skycoin/skycoin/src/coin"
)

// C01-H4 / C02-H2 / C07-H1 — one Unspents.ProcessBlock step over the key/value
// model: the unspent set becomes old - spent + created, every spent id is gone,
// the per-address index, the address count and the xor checksum follow.

// Output and transaction ids: concrete, determined by tag bytes that the harness
// keeps pairwise distinct (A-HASH: different outputs / transactions have different ids).
func vpModelUxBodyHash(b *coin.UxBody) cipher.SHA256 {
	var h cipher.SHA256
	h[0], h[1], h[2], h[3], h[31] = b.SrcTransaction[0], b.SrcTransaction[1], b.Address.Key[0], byte(b.Hours), 0x99
	return h
}

func vpModelTxnHash(t *coin.Transaction) cipher.SHA256 {
	var h cipher.SHA256
	h[0], h[1] = t.InnerHash[0], 0x55
	return h
}

func vpAddrs() [2]cipher.Address {
	var a [2]cipher.Address
	a[0].Key[0], a[1].Key[0] = 1, 2
	return a
}

// vpIndexMatchesPool: for both addresses the index row lists exactly the ids of
// the pool entries owned by it (each once); no row if it owns none.
func vpIndexMatchesPool(up *Unspents, label string) {
	addrs := vpAddrs()
	all, err := up.pool.getAll(nil)
	vpAssert(err == nil, "pool_readable")
	rows := 0
	for _, a := range addrs {
		row, err := up.poolAddrIndex.get(nil, a)
		vpAssert(err == nil, "index_readable")
		owned := 0
		for i := range all {
			if all[i].Body.Address == a {
				owned++
				cnt := 0
				for _, h := range row {
					if h == all[i].Hash() {
						cnt++
					}
				}
				vpAssert(cnt == 1, label)
			}
		}
		vpAssert(len(row) == owned, label)
		if owned > 0 {
			rows++
		}
	}
	n, _ := up.AddressCount(nil)
	vpAssert(n == uint64(rows), "address_count_is_number_of_addresses_with_unspents")
	// the per-address query used for balances: one entry per queried address
	// (balances of addresses without confirmed outputs depend on it), holding exactly its outputs
	q, qerr := up.GetUnspentsOfAddrs(nil, addrs[:])
	vpAssert(qerr == nil && len(q) == len(addrs), "address_query_answers_for_every_queried_address")
	for _, a := range addrs {
		uxs, ok := q[a]
		vpAssert(ok, "address_query_answers_for_every_queried_address")
		owned := 0
		for i := range all {
			if all[i].Body.Address == a {
				owned++
				found := false
				for j := range uxs {
					if uxs[j] == all[i] {
						found = true
					}
				}
				vpAssert(found, "address_query_returns_the_owned_outputs")
			}
		}
		vpAssert(len(uxs) == owned, "address_query_returns_the_owned_outputs")
	}
}

//vp:prop C01 C02 C07
//vp:bounds unspent set of 1..2 outputs over 2 addresses with free coins and creation time; block of 1..2 transactions each spending 1 output (a pool entry or an unknown id) and creating 1..2 outputs with free address (of 2), coins, hours
//vp:assume the bolt buckets are replaced by a key/value model at the dbutil seam (rollback of a failed Update is bolt's job); output and transaction ids are concrete and pairwise distinct (collision freedom), the snapshot hash is an uninterpreted function; pre-state built through the real pool.put / buildAddrIndex / meta setters
//vp:rule (*github.com/skycoin/skycoin/src/coin.UxBody).Hash model:vpModelUxBodyHash
//vp:rule (*github.com/skycoin/skycoin/src/coin.Transaction).Hash model:vpModelTxnHash
//vp:rule github.com/skycoin/skycoin/src/visor/dbutil.GetBucketValueNoCopy model:vpKVGet
//vp:rule github.com/skycoin/skycoin/src/visor/dbutil.GetBucketValue model:vpKVGetCopy
//vp:rule github.com/skycoin/skycoin/src/visor/dbutil.PutBucketValue model:vpKVPut
//vp:rule github.com/skycoin/skycoin/src/visor/dbutil.Delete model:vpKVDelete
//vp:rule github.com/skycoin/skycoin/src/visor/dbutil.BucketHasKey model:vpKVHas
//vp:rule github.com/skycoin/skycoin/src/visor/dbutil.ForEach model:vpKVForEach
//vp:rule github.com/skycoin/skycoin/src/visor/dbutil.Len model:vpKVLen
//vp:rule github.com/skycoin/skycoin/src/visor/dbutil.IsEmpty model:vpKVIsEmpty
//vp:rule github.com/skycoin/skycoin/src/visor/dbutil.Reset model:vpKVResetBucket
//vp:noreplay the database is a model
//vp:unwind 60
func vpH_C02_ProcessBlockStep() {
	vpKVReset()
	addrs := vpAddrs()
	up := NewUnspentPool()
	nPool := vpLen("nPool", 1, 2)
	pre := make(coin.UxArray, nPool)
	var x cipher.SHA256
	for i := range pre {
		pre[i].Head.Time = vpU64("ux.time")
		pre[i].Head.BkSeq = 3
		pre[i].Body.SrcTransaction[0] = byte(0x10 + i)
		pre[i].Body.Address = addrs[vpLen("ux.owner", 0, 1)]
		pre[i].Body.Coins = vpU64("ux.coins")
		pre[i].Body.Hours = uint64(200 + i) // part of the (concrete) output id
		vpAssert(up.pool.put(nil, pre[i].Hash(), pre[i]) == nil, "pool_put_succeeds")
		x = x.Xor(pre[i].SnapshotHash())
	}
	vpAssert(up.buildAddrIndex(nil) == nil, "index_rebuild_succeeds")
	vpIndexMatchesPool(up, "rebuilt_index_lists_exactly_the_owned_outputs")
	vpAssert(up.meta.setXorHash(nil, x) == nil, "meta_writable")
	vpAssert(up.meta.setAddrIndexHeight(nil, 3) == nil, "meta_writable")

	// the block
	b := &coin.SignedBlock{}
	b.Head.BkSeq = 4
	b.Head.Time = vpU64("block.time")
	nTx := vpLen("nTxns", 1, 2)
	b.Body.Transactions = make(coin.Transactions, nTx)
	spends := make([]int, nTx)
	for i := range b.Body.Transactions {
		t := &b.Body.Transactions[i]
		spends[i] = vpLen("spends", 0, nPool) // index of a pool entry, or nPool = an unknown id
		t.In = make([]cipher.SHA256, 1)
		if spends[i] < nPool {
			t.In[0] = pre[spends[i]].Hash()
		} else {
			t.In[0][0] = 0xEE
			for j := range pre {
				vpAssume(t.In[0] != pre[j].Hash())
			}
		}
		t.Sigs = make([]cipher.Sig, 1)
		nOut := vpLen("nOut", 1, 2)
		t.Out = make([]coin.TransactionOutput, nOut)
		for j := range t.Out {
			t.Out[j].Address = addrs[vpLen("out.owner", 0, 1)]
			t.Out[j].Coins = vpU64("out.coins")
			t.Out[j].Hours = uint64(100*i + j) // distinct outputs (C09: no duplicate outputs)
		}
		t.InnerHash[0] = byte(i + 1) // distinct transactions
	}

	err := up.ProcessBlock(nil, b)

	missing, double := false, false
	for i := range spends {
		if spends[i] == nPool {
			missing = true
		}
		for q := 0; q < i; q++ {
			if spends[q] == spends[i] && spends[i] < nPool {
				double = true
			}
		}
	}
	if missing || double {
		vpAssert(err != nil, "block_spending_a_missing_or_twice_spent_output_is_refused")
		vpReach("refused")
		return
	}
	vpAssert(err == nil, "valid_block_is_processed")
	vpReach("processed")

	// created outputs
	var created coin.UxArray
	for _, t := range b.Body.Transactions {
		created = append(created, coin.CreateUnspents(b.Head, t)...)
	}
	// every spent id is gone, every other old entry and every created one is there, nothing else
	want := 0
	x2 := x
	for i := range pre {
		spent := false
		for _, s := range spends {
			if s == i {
				spent = true
			}
		}
		got, gerr := up.Get(nil, pre[i].Hash())
		vpAssert(gerr == nil, "pool_readable")
		if spent {
			vpAssert(got == nil, "spent_output_removed_from_the_unspent_set")
			x2 = x2.Xor(pre[i].SnapshotHash())
		} else {
			vpAssert(got != nil && *got == pre[i], "unspent_output_untouched")
			want++
		}
	}
	for i := range created {
		got, gerr := up.Get(nil, created[i].Hash())
		vpAssert(gerr == nil && got != nil && *got == created[i], "created_output_added_with_exact_contents")
		x2 = x2.Xor(created[i].SnapshotHash())
		want++
	}
	n, _ := up.Len(nil)
	vpAssert(n == uint64(want), "unspent_set_is_old_minus_spent_plus_created")
	vpIndexMatchesPool(up, "address_index_lists_exactly_the_owned_outputs")
	uxh, herr := up.GetUxHash(nil)
	vpAssert(herr == nil && uxh == x2, "checksum_is_xor_of_snapshot_hashes")
	h, ok, _ := up.meta.getAddrIndexHeight(nil)
	vpAssert(ok && h == 4, "index_height_follows_the_block")
}
