package visor

// C29 — PageIndex.Cal partitions [0,n) into consecutive pages.

//vp:prop C29
//vp:bounds none: loop-free; size, page number, n free 64-bit
func vpH_C29_Cal() {
	size, page, n := vpU64("size"), vpU64("page"), vpU64("n")
	p, err := NewPageIndex(size, page)
	if size == 0 || page == 0 || size > MaxTxnPageSize {
		vpAssert(p == nil && err != nil, "bad_page_parameters_rejected")
		return
	}
	vpAssert(err == nil && p != nil, "good_page_parameters_accepted")
	start, end, total, err2 := p.Cal(n)
	vpAssert(err2 == nil, "cal_no_error")
	want := n / size
	if n%size != 0 {
		want++
	}
	vpAssert(total == want, "total_pages_is_ceil")
	shi, slo := vpMul128(size, page-1)
	if shi != 0 || slo >= n {
		vpAssert(start == 0 && end == 0, "page_beyond_end_is_empty")
		vpAssert(page > total, "beyond_end_iff_page_gt_total")
	} else {
		vpAssert(start == slo, "start_is_size_times_pages_before")
		wantEnd := n
		ehi, elo := vpAdd128(slo, size)
		if ehi == 0 && elo < n {
			wantEnd = elo
		}
		vpAssert(end == wantEnd, "end_is_min_of_next_start_and_n")
		vpAssert(page <= total, "inside_iff_page_le_total")
	}
}

//vp:prop C29
//vp:bounds none: loop-free; two consecutive page numbers, size in 1..100, n free 64-bit
func vpH_C29_ConsecutivePagesAbut() {
	size, page, n := vpU64("size"), vpU64("page"), vpU64("n")
	vpAssume(size >= 1 && size <= MaxTxnPageSize && page >= 1 && page+1 != 0)
	p1, err1 := NewPageIndex(size, page)
	p2, err2 := NewPageIndex(size, page+1)
	vpAssert(err1 == nil && err2 == nil, "both_pages_constructible")
	s1, e1, t1, _ := p1.Cal(n)
	s2, e2, t2, _ := p2.Cal(n)
	vpAssert(t1 == t2, "page_count_independent_of_page")
	if page == 1 && n > 0 {
		vpAssert(s1 == 0, "first_page_starts_at_zero")
	}
	if page < t1 {
		vpAssert(e1-s1 == size, "inner_page_is_full")
		vpAssert(s2 == e1, "next_page_starts_where_this_one_ends")
		vpAssert(e2 > s2, "next_page_non_empty")
	}
	if page == t1 {
		vpAssert(e1 == n && e1 > s1, "last_page_ends_at_n_and_is_non_empty")
		vpAssert(s2 == 0 && e2 == 0, "page_after_last_is_empty")
	}
	if page > t1 {
		vpAssert(s1 == 0 && e1 == 0, "pages_beyond_are_empty")
	}
}
