package visor

// C29 — PageIndex.Cal partitions [0,n) into consecutive pages.

//vp:prop C29
//vp:bounds none: loop-free; size, page number, n free 64-bit
func vpH_C29_Cal() {
	size, page, n := vpU64("size"), vpU64("page"), vpU64("n")
	p, err := NewPageIndex(size, page)
	if size == 0 || page == 0 || size > MaxTxnPageSize {
		vpAssert(p == nil && err != nil, "bad_page_parameters_rejected")
		return
	}
	vpAssert(err == nil && p != nil, "good_page_parameters_accepted")
	start, end, total, err2 := p.Cal(n)
	vpAssert(err2 == nil, "cal_no_error")
	want := n / size
	if n%size != 0 {
		want++
	}
	vpAssert(total == want, "total_pages_is_ceil")
	shi, slo := vpMul128(size, page-1)
	if shi != 0 || slo >= n {
		vpAssert(start == 0 && end == 0, "page_beyond_end_is_empty")
		vpAssert(page > total, "beyond_end_iff_page_gt_total")
	} else {
		vpAssert(start == slo, "start_is_size_times_pages_before")
		wantEnd := n
		ehi, elo := vpAdd128(slo, size)
		if ehi == 0 && elo < n {
			wantEnd = elo
		}
		vpAssert(end == wantEnd, "end_is_min_of_next_start_and_n")
		vpAssert(page <= total, "inside_iff_page_le_total")
	}
}
