package visor

import (
	"bytes"

	"github.com/skycoin/skycoin/src/cipher"
	"github.com/skycoin/skycoin/src/coin"
	"github.com/skycoin/skycoin/src/params"
	"github.com/skycoin/skycoin/src/transaction"
	"github.com/skycoin/skycoin/src/util/mathutil"
	"github.com/skycoin/skycoin/src/visor/dbutil"
)

// C05 — the publisher builds its block from the pending transactions that pass
// all hard and soft rules, ordered by fee per kilobyte measured at the head
// time (highest first, ties by lowest hash), cut to the block size limit.

type vpPubChain struct {
	Blockchainer
	head      *coin.SignedBlock
	invalid   [3]int // 0 valid, 1 soft violation, 2 hard violation
	fees      [3]uint64
	feeTimes  []uint64
	newBlocks []coin.Transactions
	newWhen   uint64
}

func (c *vpPubChain) VerifySingleTxnSoftHardConstraints(tx *dbutil.Tx, txn coin.Transaction, d params.Distribution, v params.VerifyTxn, s transaction.TxnSignedFlag) (*coin.SignedBlock, coin.UxArray, error) {
	switch c.invalid[vpMark(&txn)] {
	case 1:
		return nil, nil, transaction.NewErrTxnViolatesSoftConstraint(vpErrStore)
	case 2:
		return nil, nil, transaction.NewErrTxnViolatesHardConstraint(vpErrStore)
	}
	return c.head, nil, nil
}
func (c *vpPubChain) Head(tx *dbutil.Tx) (*coin.SignedBlock, error) { return c.head, nil }
func (c *vpPubChain) TransactionFee(tx *dbutil.Tx, t uint64) coin.FeeCalculator {
	c.feeTimes = append(c.feeTimes, t)
	return func(txn *coin.Transaction) (uint64, error) { return c.fees[vpMark(txn)], nil }
}
func (c *vpPubChain) NewBlock(tx *dbutil.Tx, txns coin.Transactions, when uint64) (*coin.Block, error) {
	c.newBlocks = append(c.newBlocks, txns)
	c.newWhen = when
	return &coin.Block{}, nil
}

// mathutil.MultUint64 by its contract (proved for all values in C31): exact product or overflow error
func vpModelMultUint64(a, b uint64) (uint64, error) {
	hi, lo := vpMul128(a, b)
	if hi != 0 {
		return 0, mathutil.ErrUint64MultOverflow
	}
	return lo, nil
}

//vp:prop C05
//vp:bounds 1..3 pending transactions (1 input, 1..2 outputs: sizes 183 / 220 bytes) with free fees and free rule verdicts (valid / soft violation / hard violation); head time, block time and block size limit free
//vp:assume the block size limit is at least the size of any single transaction that passes the soft rules (visor.Config.Verify)
//vp:assume mathutil.MultUint64 summarised by its contract (C31)
//vp:assume transaction ids are concrete tags kept pairwise distinct (collision freedom), sizes follow the serialisation format (C09); rule checking and fee computation are summarised by free per-transaction values; Blockchain.NewBlock re-validates the chosen transactions (C04/C02)
//vp:rule github.com/skycoin/skycoin/src/util/mathutil.MultUint64 model:vpModelMultUint64
//vp:rule (*github.com/skycoin/skycoin/src/coin.Transaction).Hash model:vpModelTxnHashTag
//vp:rule (*github.com/skycoin/skycoin/src/coin.Transaction).SizeHash model:vpModelTxnSizeHashTag
//vp:noreplay the chain is a fake
//vp:unwind 40
func vpH_C05_CreateBlockFromTxns() {
	maxN := 3
	if vpThorough() {
		maxN = 3
	}
	n := vpLen("nPending", 1, maxN)
	chain := &vpPubChain{head: &coin.SignedBlock{}}
	chain.head.Head.Time = vpU64("headTime")
	when := vpU64("blockTime")
	vs := &Visor{blockchain: chain}
	vs.Config.MaxBlockTransactionsSize = vpU32("maxBlockSize")
	// Config.Verify: MaxBlockTransactionsSize >= CreateBlockVerifyTxn.MaxTransactionSize >= size of any transaction passing the soft rules
	vpAssume(vs.Config.MaxBlockTransactionsSize >= 220)
	txns := make(coin.Transactions, n)
	sizes := make([]uint64, n)
	for i := range txns {
		txns[i].In = make([]cipher.SHA256, 1)
		txns[i].Sigs = make([]cipher.Sig, 1)
		txns[i].Out = make([]coin.TransactionOutput, vpLen("nOut", 1, 2))
		txns[i].Out[0].Hours = uint64(i)                    // marker
		txns[i].InnerHash[0] = byte(vpLen("hashTag", 1, 3)) // hash order independent of submission order
		sizes[i] = uint64(49 + 65 + 32 + 37*len(txns[i].Out))
		chain.invalid[i] = vpLen("verdict", 0, 2)
		chain.fees[i] = vpU64("fee")
		for q := 0; q < i; q++ {
			vpAssume(txns[i].Hash() != txns[q].Hash())
		}
	}

	_, err := vs.createBlockFromTxns(nil, txns, when)

	nValid := 0
	for i := 0; i < n; i++ {
		if chain.invalid[i] == 0 {
			nValid++
		}
	}
	if err != nil {
		vpAssert(len(chain.newBlocks) == 0, "no_block_built_on_failure")
		vpReach("no-block")
		return
	}
	vpReach("block")
	vpAssert(len(chain.newBlocks) == 1 && chain.newWhen == when, "one_block_built_for_the_requested_time")
	vpAssert(len(chain.feeTimes) == 1 && chain.feeTimes[0] == chain.head.Head.Time, "fees_measured_at_the_head_time")
	got := chain.newBlocks[0]
	vpAssert(len(got) >= 1 && len(got) <= nValid, "block_is_not_empty_and_holds_only_pending_transactions")
	// priority = min(fee*1024, 2^64-1) / size
	prio := func(i int) uint64 {
		hi, lo := vpMul128(chain.fees[i], 1024)
		if hi != 0 {
			lo = ^uint64(0)
		}
		return lo / sizes[i]
	}
	before := func(a, b int) bool { // a sorts strictly before b
		pa, pb := prio(a), prio(b)
		if pa != pb {
			return pa > pb
		}
		ha, hb := txns[a].Hash(), txns[b].Hash()
		return bytes.Compare(ha[:], hb[:]) < 0
	}
	var total uint64
	included := make([]bool, n)
	for g := range got {
		i := vpMark(&got[g])
		vpAssert(chain.invalid[i] == 0, "only_transactions_passing_hard_and_soft_rules")
		vpAssert(!included[i], "no_transaction_twice")
		included[i] = true
		total += sizes[i]
		if g > 0 {
			vpAssert(before(vpMark(&got[g-1]), i), "ordered_by_fee_per_kb_then_lowest_hash")
		}
	}
	vpAssert(total <= uint64(vs.Config.MaxBlockTransactionsSize), "block_respects_the_size_limit")
	// what was left out is invalid, or comes after every included one and does not fit
	last := vpMark(&got[len(got)-1])
	for i := 0; i < n; i++ {
		if included[i] || chain.invalid[i] != 0 {
			continue
		}
		vpAssert(before(last, i), "left_out_transactions_come_later_in_the_order")
	}
	first := -1
	for i := 0; i < n; i++ { // the first left-out valid transaction in the order
		if included[i] || chain.invalid[i] != 0 {
			continue
		}
		if first < 0 || before(i, first) {
			first = i
		}
	}
	if first >= 0 {
		vpAssert(total+sizes[first] > uint64(vs.Config.MaxBlockTransactionsSize), "the_next_transaction_in_order_would_not_fit")
	}
}
