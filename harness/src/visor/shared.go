package visor

//vp:shared

import (
	"errors"

	"github.com/skycoin/skycoin/src/coin"
	"github.com/skycoin/skycoin/src/visor/dbutil"
)

var vpErrStore = errors.New("vp: store failure")

// vpModelCoinHours: contract of coin.UxOut.CoinHours (value or error, deterministic); C31 checks the real one.
func vpModelCoinHours(uo *coin.UxOut, t uint64) (uint64, error) {
	if vpUF64("coinhours.kind", uo.Head.Time, uo.Body.Coins, uo.Body.Hours, t)%2 == 1 {
		return 0, vpErrStore
	}
	return vpUF64("coinhours.value", uo.Head.Time, uo.Body.Coins, uo.Body.Hours, t), nil
}

// vpModelDBView: (*dbutil.DB).View(name, f) runs f inside a read transaction.
func vpModelDBView(db *dbutil.DB, name string, f func(*dbutil.Tx) error) error { return f(nil) }
