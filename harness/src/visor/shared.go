package visor

//vp:shared

import (
	"errors"

	"github.com/skycoin/skycoin/src/cipher"
	"github.com/skycoin/skycoin/src/coin"
	"github.com/skycoin/skycoin/src/visor/dbutil"
)

var vpErrStore = errors.New("vp: store failure")

// vpModelCoinHours: contract of coin.UxOut.CoinHours (value or error, deterministic); C31 checks the real one.
func vpModelCoinHours(uo *coin.UxOut, t uint64) (uint64, error) {
	if vpUF64("coinhours.kind", uo.Head.Time, uo.Body.Coins, uo.Body.Hours, t)%2 == 1 {
		return 0, vpErrStore
	}
	return vpUF64("coinhours.value", uo.Head.Time, uo.Body.Coins, uo.Body.Hours, t), nil
}

// vpModelDBView: (*dbutil.DB).View(name, f) runs f inside a read transaction.
func vpModelDBView(db *dbutil.DB, name string, f func(*dbutil.Tx) error) error { return f(nil) }

// vpMark: the harnesses tag a transaction by the hours of its first output
func vpMark(t *coin.Transaction) int { return int(t.Out[0].Hours) }

// transaction ids: concrete and pairwise distinct (tag byte), sizes from the shape
func vpModelTxnHashTag(t *coin.Transaction) cipher.SHA256 {
	var h cipher.SHA256
	h[0], h[1] = t.InnerHash[0], 0x55
	return h
}

func vpModelTxnSizeHashTag(t *coin.Transaction) (uint32, cipher.SHA256, error) {
	return uint32(49 + 65*len(t.Sigs) + 32*len(t.In) + 37*len(t.Out)), vpModelTxnHashTag(t), nil
}
