package bip32

import (
	"bytes"
	"hash"
)

// C16-H1 — BIP32 child derivation and extended-key serialisation follow the
// standard's data flow. Cryptographic primitives are uninterpreted functions:
// HMAC-SHA512(key, data), point(k) = serP of the public key, key addition,
// point addition, SHA256 / RIPEMD160.

type vpMac struct {
	key  []byte
	data []byte
}

func (m *vpMac) Write(p []byte) (int, error) { m.data = append(m.data, p...); return len(p), nil }
func (m *vpMac) Sum(b []byte) []byte          { return append(b, vpUFBytes("hmac-sha512", 64, m.key, m.data)...) }
func (m *vpMac) Reset()                       { m.data = nil }
func (m *vpMac) Size() int                    { return 64 }
func (m *vpMac) BlockSize() int               { return 128 }

func vpModelHmacNew(h func() hash.Hash, key []byte) hash.Hash { return &vpMac{key: append([]byte{}, key...)} }

var vpErrKey = NewError(ErrDerivedInvalidPrivateKey)

func vpModelPubForPriv(key []byte) ([]byte, error) {
	if vpUFBytes("priv.invalid", 1, key)[0]&1 == 1 {
		return nil, ErrDerivedInvalidPrivateKey
	}
	return vpUFBytes("point", 33, key), nil
}
func vpModelAddPriv(key, keyPar []byte) ([]byte, error) {
	if vpUFBytes("addpriv.invalid", 1, key, keyPar)[0]&1 == 1 {
		return nil, ErrDerivedInvalidPrivateKey
	}
	return vpUFBytes("addpriv", 32, key, keyPar), nil
}
func vpModelAddPub(key, keyPar []byte) ([]byte, error) {
	if vpUFBytes("addpub.invalid", 1, key, keyPar)[0]&1 == 1 {
		return nil, ErrDerivedInvalidPublicKey
	}
	return vpUFBytes("addpub", 33, key, keyPar), nil
}
func vpModelValidatePriv(key []byte) error {
	if vpUFBytes("priv.invalid", 1, key)[0]&1 == 1 {
		return ErrDerivedInvalidPrivateKey
	}
	return nil
}
func vpModelValidatePub(key []byte) error {
	if vpUFBytes("pub.invalid", 1, key)[0]&1 == 1 {
		return ErrDerivedInvalidPublicKey
	}
	return nil
}
func vpModelSHA256(d []byte) []byte    { return vpUFBytesInj("sha256", 32, d) }
func vpModelRipemd160(d []byte) []byte { return vpUFBytesInj("ripemd160", 20, d) }

func vpFreePriv() *PrivateKey {
	return &PrivateKey{key: key{
		Version:           PrivateWalletVersion,
		Depth:             vpU8("depth"),
		ParentFingerprint: vpBytes("parentFp", 4),
		childNumber:       vpBytes("childNumber", 4),
		ChainCode:         vpBytes("chainCode", 32),
		Key:               vpBytes("key", 32),
	}}
}

//vp:prop C16
//vp:bounds any extended private key (depth, parent fingerprint, child number, chain code, key bytes free) and any 32-bit child index
//vp:assume HMAC-SHA512, point(k), scalar and point addition, key validity and SHA256/RIPEMD160 are uninterpreted functions; the homomorphism point(a+b) = point(a)+point(b) is assumed for the derived pair (it is the defining property of the curve group, C14's subject)
//vp:rule crypto/hmac.New model:vpModelHmacNew
//vp:rule github.com/skycoin/skycoin/src/cipher/bip32.publicKeyForPrivateKey model:vpModelPubForPriv
//vp:rule github.com/skycoin/skycoin/src/cipher/bip32.addPrivateKeys model:vpModelAddPriv
//vp:rule github.com/skycoin/skycoin/src/cipher/bip32.addPublicKeys model:vpModelAddPub
//vp:rule github.com/skycoin/skycoin/src/cipher/bip32.validatePrivateKey model:vpModelValidatePriv
//vp:rule github.com/skycoin/skycoin/src/cipher/bip32.validatePublicKey model:vpModelValidatePub
//vp:rule github.com/skycoin/skycoin/src/cipher/bip32.hashSHA256 model:vpModelSHA256
//vp:rule github.com/skycoin/skycoin/src/cipher/bip32.hashRipemd160 model:vpModelRipemd160
//vp:noreplay cryptographic primitives are uninterpreted
func vpH_C16_ChildDerivation() {
	k := vpFreePriv()
	idx := vpU32("childIndex")
	ser32 := []byte{byte(idx >> 24), byte(idx >> 16), byte(idx >> 8), byte(idx)}
	pub, perr := vpModelPubForPriv(k.Key)
	vpAssume(perr == nil) // the parent key is a valid key
	child, err := k.NewPrivateChildKey(idx)
	if k.Depth == 0xFF {
		vpAssert(err == ErrMaxDepthReached && child == nil, "depth_255_cannot_derive")
		pc255, perr255 := k.PublicKey().NewPublicChildKey(idx)
		vpAssert(perr255 != nil && pc255 == nil, "depth_255_cannot_derive_from_the_public_key_either")
		if idx < 1<<31 {
			vpAssert(perr255 == ErrMaxDepthReached, "depth_255_cannot_derive_from_the_public_key_either")
		}
		return
	}
	// I = HMAC-SHA512(Key = cpar, Data = 0x00 || ser256(kpar) || ser32(i))  or  serP(point(kpar)) || ser32(i)
	var data []byte
	if idx >= 1<<31 {
		data = append(append([]byte{0}, k.Key...), ser32...)
	} else {
		data = append(append([]byte{}, pub...), ser32...)
	}
	I := vpUFBytes("hmac-sha512", 64, k.ChainCode, data)
	want, aerr := vpModelAddPriv(I[:32], k.Key)
	if aerr != nil {
		vpAssert(err != nil && IsImpossibleChildError(err), "invalid_child_is_reported_as_impossible_child")
		vpReach("impossible-child")
		return
	}
	vpAssert(err == nil && child != nil, "valid_child_is_derived")
	vpReach("derived")
	vpAssert(bytes.Equal(child.Key, want), "child_key_is_IL_plus_parent_key")
	vpAssert(bytes.Equal(child.ChainCode, I[32:]), "child_chain_code_is_IR")
	vpAssert(child.Depth == k.Depth+1, "depth_incremented")
	vpAssert(bytes.Equal(child.childNumber, ser32) && child.ChildNumber() == idx, "child_number_is_ser32_big_endian")
	vpAssert(bytes.Equal(child.Version, PrivateWalletVersion), "private_version_bytes")
	fp := vpModelRipemd160(vpModelSHA256(pub))[:4]
	vpAssert(bytes.Equal(child.ParentFingerprint, fp), "parent_fingerprint_is_first_4_bytes_of_hash160_of_parent_public_key")

	// public derivation
	K := k.PublicKey()
	vpAssert(bytes.Equal(K.Key, pub) && bytes.Equal(K.ChainCode, k.ChainCode) && K.Depth == k.Depth && bytes.Equal(K.childNumber, k.childNumber) && bytes.Equal(K.ParentFingerprint, k.ParentFingerprint), "neutering_keeps_everything_but_the_key")
	pc, perr2 := K.NewPublicChildKey(idx)
	if idx >= 1<<31 {
		vpAssert(perr2 == ErrHardenedChildPublicKey && pc == nil, "hardened_child_of_a_public_key_refused")
		return
	}
	// CKDpub: I as above (normal child), Ki = point(IL) + Kpar, ci = IR
	pIL, e1 := vpModelPubForPriv(I[:32])
	if e1 != nil {
		vpAssert(perr2 != nil && IsImpossibleChildError(perr2), "invalid_public_child_is_reported_as_impossible_child")
		return
	}
	wantPub, e2 := vpModelAddPub(pIL, pub)
	if e2 != nil {
		vpAssert(perr2 != nil, "invalid_sum_is_refused")
		return
	}
	vpAssert(perr2 == nil && bytes.Equal(pc.Key, wantPub) && bytes.Equal(pc.ChainCode, I[32:]) && pc.Depth == k.Depth+1 && bytes.Equal(pc.childNumber, ser32) && bytes.Equal(pc.ParentFingerprint, fp) && bytes.Equal(pc.Version, PublicWalletVersion), "public_child_follows_CKDpub")
	// commutation with neutering, given the group homomorphism for this pair
	cpub, e3 := vpModelPubForPriv(want)
	vpAssume(e3 == nil && bytes.Equal(cpub, wantPub)) // point(IL + kpar) = point(IL) + point(kpar)
	cK := child.PublicKey()
	vpAssert(bytes.Equal(cK.Key, pc.Key) && bytes.Equal(cK.ChainCode, pc.ChainCode) && cK.Depth == pc.Depth && bytes.Equal(cK.childNumber, pc.childNumber) && bytes.Equal(cK.ParentFingerprint, pc.ParentFingerprint), "public_child_of_public_key_is_public_key_of_private_child")
}

//vp:prop C16
//vp:bounds every 82-byte string with free content (and lengths 81, 83); private and public decoding
//vp:assume SHA256 uninterpreted and collision free; key validity an uninterpreted predicate
//vp:rule github.com/skycoin/skycoin/src/cipher/bip32.validatePrivateKey model:vpModelValidatePriv
//vp:rule github.com/skycoin/skycoin/src/cipher/bip32.validatePublicKey model:vpModelValidatePub
//vp:rule github.com/skycoin/skycoin/src/cipher/bip32.hashSHA256 model:vpModelSHA256
//vp:noreplay hashes are uninterpreted
func vpH_C16_SerializeRoundTrip() {
	n := vpLen("length", 81, 83)
	data := vpBytes("data", n)
	priv, err := DeserializePrivateKey(data)
	if err == nil {
		vpAssert(n == 82, "only_82_byte_strings_decode")
		vpAssert(bytes.Equal(priv.Serialize(), data), "private_key_reserialises_to_the_same_bytes")
		vpAssert(bytes.Equal(data[0:4], PrivateWalletVersion) && data[45] == 0, "private_key_has_xprv_version_and_zero_pad")
		if data[4] == 0 {
			vpAssert(bytes.Equal(data[5:13], make([]byte, 8)), "master_key_has_zero_fingerprint_and_child_number")
		}
		vpReach("private-decoded")
	}
	pub, err2 := DeserializePublicKey(data)
	if err2 == nil {
		vpAssert(n == 82 && err != nil, "a_string_is_not_both_a_private_and_a_public_key")
		vpAssert(bytes.Equal(pub.Serialize(), data), "public_key_reserialises_to_the_same_bytes")
		vpAssert(bytes.Equal(data[0:4], PublicWalletVersion), "public_key_has_xpub_version")
		vpReach("public-decoded")
	}
}
