package bip32

import (
	"math/big"
)

// C16-H3 — the scalar step of CKDpriv: addPrivateKeys and validatePrivateKey are
// executed for real (math/big interpreted as mathematical integers) against the
// BIP32 definition ki = parse256(IL) + kpar (mod n), ser256(ki) being exactly 32
// bytes, with "IL >= n or ki = 0 is invalid".

const vpOrderHex = "FFFFFFFFFFFFFFFFFFFFFFFFFFFFFFFEBAAEDCE6AF48A03BBFD25E8CD0364141"

//vp:prop C16
//vp:bounds both 32-byte operands free; every length of the minimal big-endian form of the sum (0..32 bytes) is a separate path
//vp:assume math/big operations have their documented mathematical meaning (the library itself is not executed)
//vp:timeout 60000
func vpH_C16_AddPrivateKeys() {
	il, kpar := vpBytes("IL", 32), vpBytes("kpar", 32)
	n, _ := new(big.Int).SetString(vpOrderHex, 16)
	a, b := new(big.Int).SetBytes(il), new(big.Int).SetBytes(kpar)
	valid := func(x *big.Int) bool { return x.Sign() > 0 && x.Cmp(n) < 0 }

	vpAssert((validatePrivateKey(il) == nil) == valid(a), "private_key_valid_iff_in_1_to_n_minus_1")

	out, err := addPrivateKeys(il, kpar)
	sum := new(big.Int).Add(a, b)
	if sum.Cmp(n) >= 0 {
		sum.Sub(sum, n)
	}
	if !valid(a) || !valid(b) {
		vpAssert(err != nil, "invalid_operand_is_refused")
		vpReach("invalid-operand")
		return
	}
	if sum.Sign() == 0 {
		vpAssert(err != nil, "zero_child_key_is_refused")
		vpReach("zero")
		return
	}
	vpAssert(err == nil, "valid_child_key_is_derived")
	vpAssert(len(out) == 32, "child_key_is_serialised_as_32_bytes")
	vpAssert(new(big.Int).SetBytes(out).Cmp(sum) == 0, "child_key_is_the_sum_modulo_the_group_order")
	vpReach("derived")
}
