package cipher

import "bytes"

// C15-H3 — address bytes <-> address values correspond one to one.

//vp:prop C15
//vp:bounds byte strings of every length 0..30 with free content
//vp:assume SHA256 is an uninterpreted function (the 4-byte checksum is its prefix; congruence only)
//vp:noreplay SHA256 is uninterpreted
func vpH_C15_AddressFromBytes() {
	n := vpLen("n", 0, 30)
	b := vpBytes("b", n)
	a, err := AddressFromBytes(b)
	ok := n == 25
	if ok {
		var want Address
		copy(want.Key[:], b[0:20])
		want.Version = b[20]
		sum := SumSHA256(append(append([]byte{}, b[0:20]...), b[20]))
		ok = b[20] == 0 && b[21] == sum[0] && b[22] == sum[1] && b[23] == sum[2] && b[24] == sum[3]
		if err == nil {
			vpAssert(a == want, "decoded_value_is_key_and_version_of_the_text")
		}
	}
	if err == nil {
		vpAssert(ok, "accepted_only_canonical_25_byte_version_0_with_checksum")
		vpAssert(bytes.Equal(a.Bytes(), b), "value_reencodes_to_the_same_bytes")
		vpReach("accepted")
	} else {
		vpAssert(!ok, "canonical_encoding_is_accepted")
		vpReach("rejected")
	}
}

//vp:prop C15
//vp:bounds every address value with version 0 (Key free)
//vp:assume SHA256 is an uninterpreted function
//vp:noreplay SHA256 is uninterpreted
func vpH_C15_AddressBytesRoundTrip() {
	var a Address
	vpFill("key", &a.Key)
	a.Version = vpU8("version")
	b := a.Bytes()
	vpAssert(len(b) == 25, "address_bytes_are_25_long")
	back, err := AddressFromBytes(b)
	if a.Version == 0 {
		vpAssert(err == nil && back == a, "bytes_of_an_address_decode_to_it")
	} else {
		vpAssert(err == ErrAddressInvalidVersion, "non_zero_version_rejected")
	}
}

// base58.Decode is abstracted here (C15's base58 harnesses cover it): text decoding
// succeeds with arbitrary bytes or fails.
func vpModelB58Decode(s string) ([]byte, error) {
	if vpBool("b58.err") {
		return nil, ErrAddressInvalidLength
	}
	return vpBytes("b58.bytes", vpLen("b58.n", 24, 26)), nil
}

//vp:prop C15
//vp:bounds base58 payload of 24..26 free bytes or a base58 error
//vp:assume base58.Decode abstracted (checked separately); SHA256 uninterpreted
//vp:rule github.com/skycoin/skycoin/src/cipher/base58.Decode model:vpModelB58Decode
//vp:noreplay abstractions
func vpH_C15_DecodeBase58AddressGate() {
	a, err := DecodeBase58Address("x")
	if err == nil {
		vpAssert(a.Version == 0, "decoded_address_has_version_0")
		back, err2 := AddressFromBytes(a.Bytes())
		vpAssert(err2 == nil && back == a, "decoded_address_is_canonical")
		vpReach("accepted")
	}
}
