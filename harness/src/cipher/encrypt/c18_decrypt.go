package encrypt

import (
	"bytes"
	"encoding/base64"
	"errors"
	"hash"
)

// C18 — decrypting any byte string with any password returns plaintext or an
// error, never a panic; sha256-xor decrypt(encrypt(d)) = d.

var vpErrModel = errors.New("vp: modelled failure")

// base64 decoding of attacker text: any n <= len(dst) arbitrary bytes, or an error.
func vpModelB64Decode(enc *base64.Encoding, dst, src []byte) (int, error) {
	if vpBool("b64.err") {
		return 0, vpErrModel
	}
	n := vpLen("b64.n", 0, len(dst))
	for i := 0; i < n; i++ {
		dst[i] = vpU8("b64.byte")
	}
	return n, nil
}

// json.Unmarshal of attacker bytes into *meta: an error, or field values.
// vpMetaMode selects which part of the metadata is explored by the harness.
var vpMetaMode int

func vpModelUnmarshalMeta(data []byte, v interface{}) error {
	if vpBool("json.err") {
		return vpErrModel
	}
	m := v.(*meta)
	m.N, m.R, m.P, m.KeyLen = 2, 1, 1, 32
	m.Salt = vpBytes("meta.salt", 1)
	nonceLen := 12
	switch vpMetaMode {
	case 1: // nonce and salt shape
		m.Salt = vpBytes("meta.salt", vpLen("saltLen", 0, 1))
		nonceLen = vpLen("nonceLen", 0, 13)
	case 2: // scrypt parameters (small work factors: memory exhaustion is outside the claim)
		m.N = vpLen("meta.N", -1, 9)
		m.R = vpLen("meta.R", -1, 2)
		m.P = vpLen("meta.P", -1, 2)
		m.KeyLen = [6]int{-1, 0, 1, 31, 32, 33}[vpLen("meta.KeyLenIdx", 0, 5)]
	}
	m.Nonce = vpBytes("meta.nonce", nonceLen)
	return nil
}

// pbkdf2.Key: documented to return keyLen bytes; a negative keyLen makes its
// make([]byte, 0, n) panic exactly as the real function does.
func vpModelPbkdf2(password, salt []byte, iter, keyLen int, h func() hash.Hash) []byte {
	if keyLen < 0 {
		panic("pbkdf2.Key: negative key length (makeslice: cap out of range)")
	}
	return vpBytes("pbkdf2.dk", keyLen)
}

//vp:prop C18
//vp:bounds payload shape: base64 text of 0..24 bytes (decoded payload of every length 0..18 with free bytes, so every metadata length prefix incl. 0xFFFE/0xFFFF), password 1..2 bytes; metadata well formed
//vp:assume base64 decoding, JSON parsing, PBKDF2/HMAC and the ChaCha20-Poly1305 core are replaced by arbitrary-result models under their documented contracts; scrypt.Key's own parameter checks and chacha20poly1305.Open's argument checks run for real
//vp:rule (*encoding/base64.Encoding).Decode model:vpModelB64Decode
//vp:rule encoding/json.Unmarshal model:vpModelUnmarshalMeta
//vp:rule github.com/skycoin/skycoin/src/cipher/pbkdf2.Key model:vpModelPbkdf2
//vp:rule github.com/skycoin/skycoin/src/cipher/scrypt.smix noop
//vp:rule (*github.com/skycoin/skycoin/src/cipher/chacha20poly1305.chacha20poly1305).open havoc
//vp:outside memory exhaustion through huge scrypt N*r in attacker-supplied metadata; the cryptographic cores
//vp:noreplay library internals are modelled; counterexamples are confirmed by dedicated native tests (see DESIGN.md)
//vp:unwind 40
//vp:maxvalues 40
func vpH_C18_ScryptChachaDecryptPayload() { vpScryptDecrypt(0, 6) }

//vp:prop C18
//vp:bounds nonce of every length 0..13 and salt 0..1 bytes in the metadata; payload 0..12 bytes
//vp:assume base64 decoding, JSON parsing, PBKDF2/HMAC and the ChaCha20-Poly1305 core are replaced by arbitrary-result models under their documented contracts; scrypt.Key's own parameter checks and chacha20poly1305.Open's argument checks run for real
//vp:rule (*encoding/base64.Encoding).Decode model:vpModelB64Decode
//vp:rule encoding/json.Unmarshal model:vpModelUnmarshalMeta
//vp:rule github.com/skycoin/skycoin/src/cipher/pbkdf2.Key model:vpModelPbkdf2
//vp:rule github.com/skycoin/skycoin/src/cipher/scrypt.smix noop
//vp:rule (*github.com/skycoin/skycoin/src/cipher/chacha20poly1305.chacha20poly1305).open havoc
//vp:outside memory exhaustion through huge scrypt N*r in attacker-supplied metadata; the cryptographic cores
//vp:noreplay library internals are modelled; counterexamples are confirmed by dedicated native tests (see DESIGN.md)
//vp:unwind 40
//vp:maxvalues 40
func vpH_C18_ScryptChachaDecryptNonce() { vpScryptDecrypt(1, 3) }

//vp:prop C18
//vp:bounds scrypt parameters in the metadata: N in -1..9, r and p in -1..2, keyLen in {-1,0,1,31,32,33}; payload 0..9 bytes
//vp:assume base64 decoding, JSON parsing, PBKDF2/HMAC and the ChaCha20-Poly1305 core are replaced by arbitrary-result models under their documented contracts; scrypt.Key's own parameter checks and chacha20poly1305.Open's argument checks run for real
//vp:rule (*encoding/base64.Encoding).Decode model:vpModelB64Decode
//vp:rule encoding/json.Unmarshal model:vpModelUnmarshalMeta
//vp:rule github.com/skycoin/skycoin/src/cipher/pbkdf2.Key model:vpModelPbkdf2
//vp:rule github.com/skycoin/skycoin/src/cipher/scrypt.smix noop
//vp:rule (*github.com/skycoin/skycoin/src/cipher/chacha20poly1305.chacha20poly1305).open havoc
//vp:outside memory exhaustion through huge scrypt N*r in attacker-supplied metadata; the cryptographic cores
//vp:noreplay library internals are modelled; counterexamples are confirmed by dedicated native tests (see DESIGN.md)
//vp:unwind 40
//vp:maxvalues 40
func vpH_C18_ScryptChachaDecryptParams() { vpScryptDecrypt(2, 3) }

func vpScryptDecrypt(mode, maxQuads int) {
	vpMetaMode = mode
	// the decoded length is chosen by the base64 model: every 0..3*maxQuads;
	// the empty text is tried as well (its decode buffer has capacity 0)
	data := vpBytes("data", 4*maxQuads*vpLen("nonEmpty", 0, 1))
	password := vpBytes("password", vpLen("pwLen", 1, 2))
	_, err := DefaultScryptChacha20poly1305.Decrypt(data, password)
	if err == nil {
		vpReach("decrypted")
	} else {
		vpReach("rejected")
	}
}

// ---- sha256-xor ----------------------------------------------------------------

var vpB64Payload []byte

// Encode/Decode pair for the round trip: Encode remembers the payload, Decode
// hands it back (base64 itself is the standard library's and not the subject).
func vpModelB64Encode(enc *base64.Encoding, dst, src []byte) {
	vpB64Payload = append([]byte(nil), src...)
}

func vpModelB64DecodeBack(enc *base64.Encoding, dst, src []byte) (int, error) {
	return copy(dst, vpB64Payload), nil
}

func vpModelRandByte(n int) []byte { return vpBytes("rand", n) }

//vp:prop C18
//vp:bounds plaintext of 0..33 bytes (1 or 2 cipher blocks), password 1..2 bytes, nonce 32 free bytes
//vp:assume SHA256 and Secp256k1Hash are uninterpreted functions (A-HASH); base64 Encode/Decode are an inverse pair
//vp:rule (*encoding/base64.Encoding).Encode model:vpModelB64Encode
//vp:rule (*encoding/base64.Encoding).Decode model:vpModelB64DecodeBack
//vp:rule github.com/skycoin/skycoin/src/cipher.RandByte model:vpModelRandByte
//vp:rule github.com/skycoin/skycoin/src/cipher/secp256k1-go.Secp256k1Hash uf:secp256k1hash:len=32
//vp:noreplay hashes are uninterpreted
//vp:unwind 80
func vpH_C18_Sha256XorRoundTrip() {
	sizes := [4]int{0, 1, 28, 33}
	n := sizes[vpLen("sizeIdx", 0, 3)]
	data := vpBytes("data", n)
	password := vpBytes("password", vpLen("pwLen", 1, 2))
	ct, err := DefaultSha256Xor.Encrypt(data, password)
	vpAssert(err == nil, "encrypt_succeeds")
	pt, err := DefaultSha256Xor.Decrypt(ct, password)
	vpAssert(err == nil, "decrypt_of_own_ciphertext_succeeds")
	vpAssert(bytes.Equal(pt, data), "decrypt_returns_the_plaintext")
}

//vp:prop C18
//vp:bounds decoded ciphertext of every length 0..99 bytes with free content (0, 1 or 2 complete blocks and every partial length), password 1..2 bytes
//vp:assume SHA256 and Secp256k1Hash are uninterpreted functions; base64 decoding yields arbitrary bytes
//vp:rule (*encoding/base64.Encoding).Decode model:vpModelB64Decode
//vp:rule github.com/skycoin/skycoin/src/cipher/secp256k1-go.Secp256k1Hash uf:secp256k1hash:len=32
//vp:noreplay hashes are uninterpreted
//vp:unwind 120
//vp:maxvalues 120
func vpH_C18_Sha256XorDecryptNoPanic() {
	data := vpBytes("data", 4*33) // decoded length n is chosen by the base64 model: every 0..99
	password := vpBytes("password", vpLen("pwLen", 1, 2))
	_, err := DefaultSha256Xor.Decrypt(data, password)
	if err == nil {
		vpReach("accepted")
	} else {
		vpReach("rejected")
	}
}
