package secp256k1

import "bytes"

// C10-H1 — which signatures pass the acceptance gates of VerifySignature /
// VerifySignatureValidity: recovery id below 4 and a low s value.

// half of the group order n (big endian): floor(n/2)
var vpHalfOrder = [32]byte{
	0x7F, 0xFF, 0xFF, 0xFF, 0xFF, 0xFF, 0xFF, 0xFF, 0xFF, 0xFF, 0xFF, 0xFF, 0xFF, 0xFF, 0xFF, 0xFF,
	0x5D, 0x57, 0x6E, 0x73, 0x57, 0xA4, 0x50, 0x1D, 0xDF, 0xE9, 0x2F, 0x46, 0x68, 0x1B, 0x20, 0xA0,
}

// public-key recovery (curve arithmetic) is not encoded: nil or 33 arbitrary bytes
func vpModelRecoverPubkey(msg, sig []byte) []byte {
	if vpBool("recover.fails") {
		return nil
	}
	return vpBytes("recovered", 33)
}

//vp:prop C10
//vp:bounds every 65-byte signature, 32-byte message and 33-byte public key (all bytes free)
//vp:assume public-key recovery (the curve arithmetic) returns nil or arbitrary 33 bytes
//vp:rule github.com/skycoin/skycoin/src/cipher/secp256k1-go.RecoverPubkey model:vpModelRecoverPubkey
//vp:noreplay recovery is modelled
func vpH_C10_SignatureGates() {
	sig := vpBytes("sig", 65)
	msg := vpBytes("msg", 32)
	pub := vpBytes("pubkey", 33)
	ok := VerifySignature(msg, sig, pub)
	valid := VerifySignatureValidity(sig)
	if ok == 1 {
		vpReach("accepted")
		vpAssert(sig[64] < 4, "accepted_signature_has_recovery_id_below_4")
		vpAssert(sig[32] < 0x80, "accepted_signature_has_the_top_bit_of_s_clear")
		vpAssert(valid == 1, "accepted_signature_passes_the_validity_gate")
		if sig[32] < 0x80 {
			vpAssert(bytes.Compare(sig[32:64], vpHalfOrder[:]) <= 0, "accepted_signature_has_s_at_most_half_the_group_order")
		}
	}
	if valid == 1 {
		vpAssert(sig[64] < 4 && sig[32] < 0x80, "validity_gate_requires_recovery_id_below_4_and_top_bit_of_s_clear")
	}
}
