package base58

import "bytes"

// C15 — base58 agrees with the big-integer definition and is canonical.

const vpAlphabet = "123456789ABCDEFGHJKLMNPQRSTUVWXYZabcdefghijkmnopqrstuvwxyz"

//vp:prop C15
//vp:bounds byte strings of every length 0..2 with free content
//vp:symindex 128
//vp:unwind 64
//vp:maxvalues 64
//vp:timeout 180000
func vpH_C15_EncodeSpec() {
	max := 2 // 3 bytes did not finish within 25 minutes
	n := vpLen("n", 0, max)
	bin := vpBytes("bin", n)
	got := Encode(bin)
	// specification: one '1' per leading zero byte, then the base-58 digits of
	// the big-endian integer, most significant first, no leading zero digit
	z := 0
	for z < n && bin[z] == 0 {
		z++
	}
	var v uint64
	for i := z; i < n; i++ {
		v = v<<8 | uint64(bin[i])
	}
	var digits [10]byte
	nd := 0
	for v > 0 {
		digits[nd] = byte(v % 58)
		v /= 58
		nd++
	}
	vpAssert(len(got) == z+nd, "length_is_leading_zeros_plus_digit_count")
	if len(got) == z+nd {
		for i := 0; i < z; i++ {
			vpAssert(got[i] == '1', "leading_zero_bytes_become_ones")
		}
		for i := 0; i < nd; i++ {
			vpAssert(got[z+i] == vpAlphabet[digits[nd-1-i]], "digits_are_the_base58_expansion")
		}
	}
	// and decoding gives the bytes back
	back, err := Decode(got)
	if n == 0 {
		vpAssert(err != nil, "empty_string_is_not_decodable")
	} else {
		vpAssert(err == nil && bytes.Equal(back, bin), "decode_inverts_encode")
	}
}

//vp:prop C15
//vp:bounds strings of every length 0..2 (quick) / 0..3 (thorough) with free bytes, including bytes >= 0x80
//vp:symindex 128
//vp:unwind 64
//vp:maxvalues 64
func vpH_C15_DecodeCanonical() {
	max := 2
	if vpThorough() {
		max = 3
	}
	n := vpLen("n", 0, max)
	s := vpStr("s", n)
	out, err := Decode(s)
	valid := n > 0
	for i := 0; i < n; i++ {
		c := s[i]
		ok := (c >= '1' && c <= '9') || (c >= 'A' && c <= 'Z' && c != 'I' && c != 'O') || (c >= 'a' && c <= 'z' && c != 'l')
		if !ok {
			valid = false
		}
	}
	if err == nil {
		vpAssert(valid, "only_strings_over_the_alphabet_decode")
		vpAssert(Encode(out) == s, "decoded_value_reencodes_to_the_same_text")
		vpReach("decoded")
	} else {
		vpAssert(!valid, "every_nonempty_string_over_the_alphabet_decodes")
		vpReach("rejected")
	}
}
