package params

// C11-H2 — droplet precision rule: amount accepted iff divisible by 10^(6-p).

//vp:prop C11
//vp:bounds precision 0..6 (every legal value), amount free 64-bit
func vpH_C11_PrecisionCheck() {
	p := vpU8("precision")
	amount := vpU64("amount")
	vpAssume(p <= 6)
	want := [7]uint64{1000000, 100000, 10000, 1000, 100, 10, 1}[p]
	vpAssert(DropletPrecisionToDivisor(p) == want, "divisor_is_ten_to_the_six_minus_p")
	err := DropletPrecisionCheck(p, amount)
	if amount%want == 0 {
		vpAssert(err == nil, "precise_amount_accepted")
	} else {
		vpAssert(err == ErrInvalidDecimals, "imprecise_amount_rejected")
	}
}

//vp:prop C11
//vp:bounds burn factor, max size free 32-bit, precision free 8-bit
func vpH_C11_VerifyTxnValidate() {
	var v VerifyTxn
	v.BurnFactor = vpU32("burn")
	v.MaxTransactionSize = vpU32("maxSize")
	v.MaxDropletPrecision = vpU8("precision")
	err := v.Validate()
	ok := v.BurnFactor >= 2 && v.MaxTransactionSize >= 1024 && v.MaxDropletPrecision <= 6
	vpAssert((err == nil) == ok, "params_valid_iff_in_documented_ranges")
}
