package transaction

//vp:shared

import (
	"errors"

	"github.com/skycoin/skycoin/src/coin"
)

// vpModelCoinHours: contract of coin.UxOut.CoinHours (see the C03 harness).
func vpModelCoinHours(uo *coin.UxOut, t uint64) (uint64, error) {
	if vpUF64("coinhours.kind", uo.Head.Time, uo.Body.Coins, uo.Body.Hours, t)%2 == 1 {
		return 0, vpErrCoinHours
	}
	return vpUF64("coinhours.value", uo.Head.Time, uo.Body.Coins, uo.Body.Hours, t), nil
}

var vpErrCoinHours = errors.New("vp: CoinHours overflow")

func vpWideAcc(hi, lo, v uint64) (uint64, uint64) {
	c, l := vpAdd128(lo, v)
	return hi + c, l
}

// vpModelRequiredFee: contract of fee.RequiredFee used where its callers are
// checked (the function itself is proved equal to ceil(hours/burn) for all
// values by vpH_C31_RequiredFee): a deterministic function of its arguments
// that never exceeds hours and is zero exactly for zero hours.
func vpModelRequiredFee(hours uint64, burn uint32) uint64 {
	f := vpUF64("requiredfee", hours, uint64(burn))
	vpAssume(f <= hours)
	vpAssume((f == 0) == (hours == 0))
	return f
}
