package transaction

import (
	"bytes"

	"github.com/skycoin/skycoin/src/cipher"
	"github.com/skycoin/skycoin/src/coin"
	"github.com/skycoin/skycoin/src/params"
	"github.com/skycoin/skycoin/src/util/fee"
)

// C12-H1 — transaction.Create in manual-hours mode: on success the transaction
// is well formed, spends only offered outputs (each once), pays every
// destination exactly, returns the rest as change to the change address and
// burns at least the required fee; it fails for lack of funds only if the
// offered outputs really cannot cover the request.

//vp:prop C12
//vp:tier thorough
//vp:bounds 1 offered output with free coins, initial hours, creation data; 1 destination with free coins and hours; change address given or automatic; head time free; manual hours mode; burn factor = the configured default
//vp:assume invariants of real unspent outputs: coins > 0 and the coin sum does not overflow (C01, C09), output ids pairwise distinct and non-null (C02), offered outputs are not the genesis output (BkSeq > 0, non-null source transaction), accrued hours >= initial hours (C03); the accrued hours of all offered outputs and the requested totals fit in 64 bits (requests whose totals overflow are refused by checked additions, C31)
//vp:assume SHA256 collision free; UxOut.CoinHours summarised by its contract (C31)
//vp:assume fee.RequiredFee summarised by its contract (deterministic, <= hours, zero iff hours are zero); C31 proves the real function equal to ceil(hours/burn)
//vp:rule (*github.com/skycoin/skycoin/src/coin.UxOut).CoinHours model:vpModelCoinHours
//vp:rule github.com/skycoin/skycoin/src/util/fee.RequiredFee model:vpModelRequiredFee
//vp:noreplay hashes are uninterpreted
//vp:unwind 40
func vpH_C12_CreateManual() {
	maxUx, maxTo := 1, 1 // (2, 1) did not finish within 20 minutes
	nUx, nTo := vpLen("nOffered", 1, maxUx), vpLen("nTo", 1, maxTo)
	head := vpU64("headTime")
	var owners [2]cipher.Address
	owners[0].Key[0], owners[1].Key[0] = 9, 2 // owner 1 sorts before owner 0
	auxs := coin.AddressUxOuts{}
	offered := make(coin.UxArray, nUx)
	hours := make([]uint64, nUx)
	var chi, clo, hhi, hlo uint64
	for i := range offered {
		ux := &offered[i]
		ux.Head.Time = vpU64("ux.time")
		ux.Head.BkSeq = vpU64("ux.bkseq")
		if i > 0 {
			ux.Body.Address = owners[vpLen("ux.owner", 0, 1)]
		} else {
			ux.Body.Address = owners[0]
		}
		ux.Body.Coins = vpU64("ux.coins")
		ux.Body.Hours = vpU64("ux.hours")
		vpFill("ux.src", &ux.Body.SrcTransaction)
		vpAssume(ux.Body.Coins > 0)
		vpAssume(ux.Head.BkSeq != 0 && ux.Body.SrcTransaction != cipher.SHA256{}) // not the genesis output
		h, err := ux.CoinHours(head)
		vpAssume(err == nil && h >= ux.Body.Hours)
		hours[i] = h
		vpAssume(ux.Hash() != cipher.SHA256{})
		for j := 0; j < i; j++ {
			vpAssume(ux.Hash() != offered[j].Hash())
		}
		c, l := vpAdd128(clo, ux.Body.Coins)
		chi, clo = chi+c, l
		c, l = vpAdd128(hlo, h)
		hhi, hlo = hhi+c, l
		auxs[ux.Body.Address] = append(auxs[ux.Body.Address], *ux)
	}
	vpAssume(chi == 0 && hhi == 0) // coin supply fits in 64 bits (C01); so do the accrued hours of one wallet

	p := Params{HoursSelection: HoursSelection{Type: HoursSelectionTypeManual}}
	p.To = make([]coin.TransactionOutput, nTo)
	var wantCoinsHi, wantCoins, wantHoursHi, wantHours uint64
	for i := range p.To {
		vpFill("to", &p.To[i])
		c, l := vpAdd128(wantCoins, p.To[i].Coins)
		wantCoinsHi, wantCoins = wantCoinsHi+c, l
		c, l = vpAdd128(wantHours, p.To[i].Hours)
		wantHoursHi, wantHours = wantHoursHi+c, l
		vpAssume(wantCoinsHi == 0 && wantHoursHi == 0) // requests that overflow are refused up front (checked sums)
	}
	var change cipher.Address
	if vpBool("changeGiven") {
		vpFill("change", &change)
		p.ChangeAddress = &change
	}
	burn := params.UserVerifyTxn.BurnFactor

	txn, inputs, err := Create(p, auxs, head)

	if err != nil {
		if err == ErrInsufficientBalance {
			vpAssert(wantCoinsHi != 0 || clo < wantCoins, "insufficient_balance_only_if_offered_coins_do_not_cover")
			vpReach("insufficient-balance")
		}
		if err == ErrInsufficientHours {
			// with every offered output spent the hours still do not cover request + fee
			all := fee.RemainingHours(hlo, burn)
			vpAssert(hhi != 0 || wantHoursHi != 0 || all < wantHours, "insufficient_hours_only_if_all_offered_hours_do_not_cover")
			vpReach("insufficient-hours")
		}
		vpAssert(txn == nil, "failure_returns_no_transaction")
		return
	}
	vpReach("created")
	verr := txn.VerifyUnsigned()
	if verr != nil {
		vpAssert(false, "created_transaction_is_well_formed:"+verr.Error())
	}
	vpAssert(verr == nil, "created_transaction_is_well_formed")
	vpAssert(len(txn.In) == len(inputs) && len(txn.In) >= 1 && len(txn.In) <= nUx, "inputs_reported")
	var inCoins, inHours uint64
	for i := range txn.In {
		found := -1
		for j := range offered {
			if txn.In[i] == offered[j].Hash() {
				found = j
			}
		}
		vpAssert(found >= 0, "spends_only_offered_outputs")
		if found >= 0 {
			inCoins += offered[found].Body.Coins // no overflow: the total fits
			inHours += hours[found]
		}
		dup := false
		for k := 0; k < i; k++ {
			if txn.In[k] == txn.In[i] {
				dup = true
			}
		}
		vpAssert(!dup, "each_output_spent_once")
	}
	vpAssert(len(txn.Out) == nTo || len(txn.Out) == nTo+1, "destinations_plus_optional_change")
	var outCoins, outHours uint64
	for i := range txn.Out {
		if i < nTo {
			vpAssert(txn.Out[i] == p.To[i], "each_destination_paid_exactly")
		}
		outCoins += txn.Out[i].Coins
		outHours += txn.Out[i].Hours
	}
	vpAssert(inCoins == outCoins, "coins_in_equal_coins_out")
	if len(txn.Out) == nTo+1 {
		ch := txn.Out[nTo]
		vpAssert(ch.Coins == inCoins-wantCoins, "change_output_returns_the_remaining_coins")
		if p.ChangeAddress != nil {
			vpAssert(ch.Address == change, "change_goes_to_the_given_change_address")
		} else {
			// automatic: the lexicographically first address among the spent outputs
			isSpender, isLeast := false, true
			for i := range inputs {
				if inputs[i].Address == ch.Address {
					isSpender = true
				}
				if bytes.Compare(inputs[i].Address.Bytes(), ch.Address.Bytes()) < 0 {
					isLeast = false
				}
			}
			vpAssert(isSpender && isLeast, "automatic_change_goes_to_first_spending_address")
		}
	} else {
		vpAssert(inCoins == wantCoins, "no_change_only_if_nothing_remains")
	}
	if hhi == 0 {
		vpAssert(inHours >= outHours && inHours-outHours >= fee.RequiredFee(inHours, burn), "burns_at_least_the_required_fee")
	}
}

// ---- modular quick-tier harnesses ---------------------------------------------

// ChooseSpends contract: the selection is a duplicate-free subset of the offered
// balances that covers the requested coins and hours (after the burn), and it
// reports lack of funds only if everything offered does not cover the request.
//
//vp:prop C12
//vp:bounds 1..3 offered balances with free coins (> 0), hours and block sequence numbers, pairwise distinct ids; requested coins and hours free; both sort strategies
//vp:assume sums of offered coins and hours fit in 64 bits; fee.RequiredFee summarised by its contract (C31)
//vp:rule github.com/skycoin/skycoin/src/util/fee.RequiredFee model:vpModelRequiredFee
//vp:noreplay RequiredFee is summarised
//vp:unwind 40
func vpH_C12_ChooseSpends() {
	n := vpLen("nOffered", 1, 3)
	uxb := make([]UxBalance, n)
	var chi, clo, hhi, hlo uint64
	for i := range uxb {
		uxb[i].Hash[0] = byte(i + 1) // distinct ids
		uxb[i].Coins = vpU64("coins")
		uxb[i].Hours = vpU64("hours")
		uxb[i].BkSeq = vpU64("bkseq")
		vpAssume(uxb[i].Coins > 0)
		chi, clo = vpWideAcc(chi, clo, uxb[i].Coins)
		hhi, hlo = vpWideAcc(hhi, hlo, uxb[i].Hours)
	}
	vpAssume(chi == 0 && hhi == 0)
	orig := append([]UxBalance(nil), uxb...)
	coins, hours := vpU64("wantCoins"), vpU64("wantHours")
	burn := params.UserVerifyTxn.BurnFactor
	var got []UxBalance
	var err error
	if vpBool("maximize") {
		got, err = ChooseSpendsMaximizeUxOuts(uxb, coins, hours)
	} else {
		got, err = ChooseSpendsMinimizeUxOuts(uxb, coins, hours)
	}
	if err != nil {
		if err == ErrInsufficientBalance {
			vpAssert(clo < coins, "insufficient_balance_only_if_all_offered_coins_do_not_cover")
		}
		if err == ErrInsufficientHours {
			vpAssert(clo >= coins && fee.RemainingHours(hlo, burn) < hours, "insufficient_hours_only_if_all_offered_hours_do_not_cover")
		}
		if err == ErrZeroSpend {
			vpAssert(coins == 0, "zero_spend_error_only_for_zero_request")
		}
		vpReach("refused")
		return
	}
	vpReach("chosen")
	var sc, sh uint64
	for i := range got {
		found := false
		for j := range orig {
			if got[i] == orig[j] {
				found = true
			}
		}
		vpAssert(found, "selection_is_made_of_offered_balances")
		for k := 0; k < i; k++ {
			vpAssert(got[k].Hash != got[i].Hash, "no_balance_selected_twice")
		}
		sc += got[i].Coins
		sh += got[i].Hours
	}
	vpAssert(sc >= coins, "selection_covers_requested_coins")
	vpAssert(fee.RemainingHours(sh, burn) >= hours, "selection_covers_requested_hours_after_burn")
}

// vpModelChoose: contract of ChooseSpendsMinimizeUxOuts (checked by
// vpH_C12_ChooseSpends): an error, or a duplicate-free subset of the offered
// balances (in some order) covering the requested coins and hours.
// vpModelChoose is the contract of ChooseSpends: an arbitrary but fixed answer per
// harness run (Create may ask twice with the same arguments and must then get
// the same answer, as from the real, deterministic function).
var vpChooseAsked bool
var vpChooseGot []UxBalance
var vpChooseErr error

func vpModelChoose(uxa []UxBalance, coins, hours uint64) ([]UxBalance, error) {
	if vpChooseAsked {
		return append([]UxBalance(nil), vpChooseGot...), vpChooseErr
	}
	vpChooseAsked = true
	switch vpLen("choose.outcome", 0, 2) {
	case 1:
		vpChooseErr = ErrInsufficientBalance
		return nil, vpChooseErr
	case 2:
		vpChooseErr = ErrInsufficientHours
		return nil, vpChooseErr
	}
	var got []UxBalance
	var sc, sh uint64
	for i := range uxa {
		if vpBool("choose.take") {
			got = append(got, uxa[i])
			sc += uxa[i].Coins
			sh += uxa[i].Hours
		}
	}
	if len(got) == 2 && vpBool("choose.swap") {
		got[0], got[1] = got[1], got[0]
	}
	vpAssume(len(got) > 0 && sc >= coins && fee.RemainingHours(sh, params.UserVerifyTxn.BurnFactor) >= hours)
	vpChooseGot, vpChooseErr = append([]UxBalance(nil), got...), nil
	return got, nil
}

// output ids of the offered outputs: concrete and pairwise distinct (slot number)
func vpModelUxOutHash(uo *coin.UxOut) cipher.SHA256 {
	var h cipher.SHA256
	h[0], h[31] = uo.Body.SrcTransaction[0], 0x77
	return h
}

//vp:prop C12
//vp:bounds 1..2 offered outputs over 2 owner addresses with free coins, initial and accrued hours; 1 destination with free address, coins and hours; change address given or automatic; manual hours mode; any selection ChooseSpends' contract allows
//vp:assume ChooseSpends summarised by its contract (checked by vpH_C12_ChooseSpends); fee.RequiredFee and UxOut.CoinHours summarised by their contracts (C31); offered output ids pairwise distinct and non-null (C02), coins > 0, coin and hour sums fit in 64 bits, not the genesis output
//vp:rule github.com/skycoin/skycoin/src/transaction.ChooseSpendsMinimizeUxOuts model:vpModelChoose
//vp:rule github.com/skycoin/skycoin/src/util/fee.RequiredFee model:vpModelRequiredFee
//vp:rule (*github.com/skycoin/skycoin/src/coin.UxOut).CoinHours model:vpModelCoinHours
//vp:rule (*github.com/skycoin/skycoin/src/coin.UxOut).Hash model:vpModelUxOutHash
//vp:noreplay callees are summarised
//vp:unwind 40
func vpH_C12_CreateAroundChosenSpends() {
	vpChooseAsked, vpChooseGot, vpChooseErr = false, nil, nil
	maxUx, maxTo := 2, 1 // (3, 2) did not finish within 20 minutes
	nUx, nTo := vpLen("nOffered", 1, maxUx), vpLen("nTo", 1, maxTo)
	head := vpU64("headTime")
	var owners [2]cipher.Address
	owners[0].Key[0], owners[1].Key[0] = 9, 2
	auxs := coin.AddressUxOuts{}
	offered := make(coin.UxArray, nUx)
	hours := make([]uint64, nUx)
	var chi, clo, hhi, hlo uint64
	for i := range offered {
		ux := &offered[i]
		ux.Head.BkSeq = 5
		ux.Body.SrcTransaction[0] = byte(i + 1)
		ux.Body.Address = owners[0]
		if i > 0 {
			ux.Body.Address = owners[vpLen("ux.owner", 0, 1)]
		}
		ux.Body.Coins = vpU64("ux.coins")
		ux.Body.Hours = vpU64("ux.hours")
		vpAssume(ux.Body.Coins > 0)
		h, err := ux.CoinHours(head)
		vpAssume(err == nil && h >= ux.Body.Hours)
		hours[i] = h
		chi, clo = vpWideAcc(chi, clo, ux.Body.Coins)
		hhi, hlo = vpWideAcc(hhi, hlo, h)
		auxs[ux.Body.Address] = append(auxs[ux.Body.Address], *ux)
	}
	vpAssume(chi == 0 && hhi == 0)
	p := Params{HoursSelection: HoursSelection{Type: HoursSelectionTypeManual}}
	p.To = make([]coin.TransactionOutput, nTo)
	var wantCoins, wantHours uint64
	for i := range p.To {
		vpFill("to", &p.To[i])
		c, l := vpAdd128(wantCoins, p.To[i].Coins)
		vpAssume(c == 0)
		wantCoins = l
		c, l = vpAdd128(wantHours, p.To[i].Hours)
		vpAssume(c == 0)
		wantHours = l
	}
	var change cipher.Address
	if vpBool("changeGiven") {
		vpFill("change", &change)
		p.ChangeAddress = &change
	}
	burn := params.UserVerifyTxn.BurnFactor

	txn, inputs, err := Create(p, auxs, head)
	if err != nil {
		vpAssert(txn == nil, "failure_returns_no_transaction")
		vpReach("refused")
		return
	}
	vpReach("created")
	vpAssert(txn.VerifyUnsigned() == nil, "created_transaction_is_well_formed")
	vpAssert(len(txn.In) == len(inputs) && len(txn.In) >= 1 && len(txn.In) <= nUx, "inputs_reported")
	var inCoins, inHours uint64
	for i := range txn.In {
		found := -1
		for j := range offered {
			if txn.In[i] == offered[j].Hash() {
				found = j
			}
		}
		vpAssert(found >= 0, "spends_only_offered_outputs")
		if found >= 0 {
			inCoins += offered[found].Body.Coins
			inHours += hours[found]
		}
		for k := 0; k < i; k++ {
			vpAssert(txn.In[k] != txn.In[i], "each_output_spent_once")
		}
	}
	vpAssert(len(txn.Out) == nTo || len(txn.Out) == nTo+1, "destinations_plus_optional_change")
	var outCoins, outHours uint64
	for i := range txn.Out {
		if i < nTo {
			vpAssert(txn.Out[i] == p.To[i], "each_destination_paid_exactly")
		}
		outCoins += txn.Out[i].Coins
		outHours += txn.Out[i].Hours
	}
	vpAssert(inCoins == outCoins, "coins_in_equal_coins_out")
	if len(txn.Out) == nTo+1 {
		ch := txn.Out[nTo]
		vpAssert(ch.Coins == inCoins-wantCoins, "change_output_returns_the_remaining_coins")
		if p.ChangeAddress != nil {
			vpAssert(ch.Address == change, "change_goes_to_the_given_change_address")
		} else {
			isSpender, isLeast := false, true
			for i := range inputs {
				if inputs[i].Address == ch.Address {
					isSpender = true
				}
				if bytes.Compare(inputs[i].Address.Bytes(), ch.Address.Bytes()) < 0 {
					isLeast = false
				}
			}
			vpAssert(isSpender && isLeast, "automatic_change_goes_to_first_spending_address")
		}
	} else {
		vpAssert(inCoins == wantCoins, "no_change_only_if_nothing_remains")
	}
	vpAssert(inHours >= outHours && inHours-outHours >= fee.RequiredFee(inHours, burn), "burns_at_least_the_required_fee")
}
