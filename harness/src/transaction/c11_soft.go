package transaction

import (
	"github.com/skycoin/skycoin/src/cipher"
	"github.com/skycoin/skycoin/src/coin"
	"github.com/skycoin/skycoin/src/params"
)

// C11-H3 — the soft rules accept exactly: size within limit, fee rule, nothing
// spent from a locked distribution address, every output precise enough; and a
// soft failure is reported as soft.

//vp:prop C11
//vp:bounds size and fee rules: inputs 1..2, outputs 1..2; all hours, times, head time, burn factor >= 2, max size free; no distribution addresses, precision 6
//vp:assume Address.String is an injective function of (Version, Key) (base58 text form; exactness of base58 is C15)
//vp:assume UxOut.CoinHours summarised by its contract (deterministic; value or error); the real function is checked against the formula by C31 for all values
//vp:rule (*github.com/skycoin/skycoin/src/coin.UxOut).CoinHours model:vpModelCoinHours
//vp:rule (github.com/skycoin/skycoin/src/cipher.Address).String uf:addrstr:inj:len=34
//vp:noreplay Address.String and CoinHours are abstracted
func vpH_C11_SoftIff_SizeFee() { vpSoftIff(2, 2, 0, false) }

//vp:prop C11
//vp:bounds locked-address rule: inputs 1..2, 1 output; 2 distribution addresses of which 0..2 unlocked, input addresses free; precision 6
//vp:assume Address.String is an injective function of (Version, Key) (base58 text form; exactness of base58 is C15)
//vp:assume UxOut.CoinHours summarised by its contract (deterministic; value or error); the real function is checked against the formula by C31 for all values
//vp:rule (*github.com/skycoin/skycoin/src/coin.UxOut).CoinHours model:vpModelCoinHours
//vp:rule (github.com/skycoin/skycoin/src/cipher.Address).String uf:addrstr:inj:len=34
//vp:noreplay Address.String and CoinHours are abstracted
func vpH_C11_SoftIff_Locked() { vpSoftIff(2, 1, 2, false) }

//vp:prop C11
//vp:bounds precision rule: 1 input, outputs 1..2 with free coins; precision free in 0..6; no distribution addresses
//vp:assume Address.String is an injective function of (Version, Key) (base58 text form; exactness of base58 is C15)
//vp:assume UxOut.CoinHours summarised by its contract (deterministic; value or error); the real function is checked against the formula by C31 for all values
//vp:rule (*github.com/skycoin/skycoin/src/coin.UxOut).CoinHours model:vpModelCoinHours
//vp:rule (github.com/skycoin/skycoin/src/cipher.Address).String uf:addrstr:inj:len=34
//vp:noreplay Address.String and CoinHours are abstracted
func vpH_C11_SoftIff_Precision() { vpSoftIff(1, 2, 0, true) }

//vp:prop C11
//vp:tier thorough
//vp:bounds all soft rules together: inputs 1..2, 1 output, 1 distribution address locked or unlocked, precision free 0..6 (the 2 x 2 x 2 combination did not finish in 50 minutes)
//vp:assume Address.String is an injective function of (Version, Key) (base58 text form; exactness of base58 is C15)
//vp:assume UxOut.CoinHours summarised by its contract (deterministic; value or error); the real function is checked against the formula by C31 for all values
//vp:rule (*github.com/skycoin/skycoin/src/coin.UxOut).CoinHours model:vpModelCoinHours
//vp:rule (github.com/skycoin/skycoin/src/cipher.Address).String uf:addrstr:inj:len=34
//vp:noreplay Address.String and CoinHours are abstracted
func vpH_C11_SoftIff_All() { vpSoftIff(2, 1, 1, true) }

func vpSoftIff(maxIn, maxOut, nDist int, precFree bool) {
	nIn, nOut := vpLen("nIn", 1, maxIn), vpLen("nOut", 1, maxOut)
	head := vpU64("headTime")
	var txn coin.Transaction
	txn.Sigs = make([]cipher.Sig, nIn)
	txn.In = make([]cipher.SHA256, nIn)
	txn.Out = make([]coin.TransactionOutput, nOut)
	uxIn := make(coin.UxArray, nIn)
	var vp params.VerifyTxn
	vp.BurnFactor = vpU32("burn")
	vp.MaxTransactionSize = vpU32("maxSize")
	vp.MaxDropletPrecision = 6
	if precFree {
		vp.MaxDropletPrecision = vpU8("precision")
	}
	vpAssume(vp.BurnFactor >= 2 && vp.MaxDropletPrecision <= 6)

	// distribution: two addresses, the first `unlocked` of them unlocked
	var d0, d1 cipher.Address
	vpFill("dist0", &d0)
	vpFill("dist1", &d1)
	var dist params.Distribution
	if nDist == 2 {
		dist.Addresses = []string{d0.String(), d1.String()}
		dist.InitialUnlockedCount = uint64(vpLen("unlocked", 0, 2))
	}

	var ihi, ilo, ohi, olo uint64
	hoursErr, locked := false, false
	for i := range uxIn {
		uxIn[i].Head.Time = vpU64("inTime")
		uxIn[i].Body.Coins = vpU64("inCoins")
		uxIn[i].Body.Hours = vpU64("inHours")
		vpFill("inAddr", &uxIn[i].Body.Address)
		h, e := uxIn[i].CoinHours(head)
		if e != nil {
			hoursErr = true
		}
		ihi, ilo = vpWideAcc(ihi, ilo, h)
		a := uxIn[i].Body.Address
		if nDist == 2 && dist.InitialUnlockedCount == 0 && a == d0 {
			locked = true
		}
		if nDist == 2 && dist.InitialUnlockedCount <= 1 && a == d1 {
			locked = true
		}
	}
	precise := true
	div := uint64(1)
	for k := vp.MaxDropletPrecision; k < 6; k++ {
		div *= 10
	}
	for i := range txn.Out {
		txn.Out[i].Coins = vpU64("outCoins")
		txn.Out[i].Hours = vpU64("outHours")
		ohi, olo = vpWideAcc(ohi, olo, txn.Out[i].Hours)
		if txn.Out[i].Coins%div != 0 {
			precise = false
		}
	}
	size := uint64(49 + 65*nIn + 32*nIn + 37*nOut) // 4+1+32 header, three 4-byte counts, 65+32 per input, 37 per output

	err := VerifySingleTxnSoftConstraints(txn, head, uxIn, dist, vp)

	ok := size <= uint64(vp.MaxTransactionSize) && !hoursErr && ihi == 0 && ohi == 0 && ilo >= olo
	if ok {
		fee := ilo - olo
		// required fee = ceil((outHours+fee)/burn) = ceil(inHours/burn)
		req := ilo / uint64(vp.BurnFactor)
		if ilo%uint64(vp.BurnFactor) != 0 {
			req++
		}
		ok = fee != 0 && fee >= req
	}
	ok = ok && !locked && precise
	if err == nil {
		vpAssert(ok, "accepted_only_if_every_soft_rule_holds")
		vpReach("accepted")
	} else {
		vpAssert(!ok, "no_spurious_soft_rejection")
		_, soft := err.(ErrTxnViolatesSoftConstraint)
		vpAssert(soft, "soft_failure_reported_as_soft")
		vpReach("rejected")
	}
}

// A hard-rule failure is never reported as soft (and vice versa): the error
// type returned by each entry point is fixed.
//
//vp:prop C11
//vp:bounds 1 input x 1 output transaction with arbitrary header, signatures abstracted
//vp:assume transaction hashing and signature recovery abstracted by uninterpreted functions (A-HASH, A-SIG)
//vp:rule github.com/skycoin/skycoin/src/cipher.VerifySignatureRecoverPubKey uf:sigrecover
//vp:rule github.com/skycoin/skycoin/src/cipher.VerifyAddressSignedHash uf:sigaddr
//vp:rule (*github.com/skycoin/skycoin/src/coin.UxOut).CoinHours model:vpModelCoinHours
//vp:noreplay signature checks are abstracted by uninterpreted functions
func vpH_C11_HardNeverSoft() {
	var txn coin.Transaction
	txn.Length = vpU32("length")
	txn.Type = vpU8("type")
	vpFill("inner", &txn.InnerHash)
	txn.Sigs = make([]cipher.Sig, 1)
	txn.In = make([]cipher.SHA256, 1)
	txn.Out = make([]coin.TransactionOutput, 1)
	vpFill("sig", &txn.Sigs[0])
	vpFill("out", &txn.Out[0])
	uxIn := make(coin.UxArray, 1)
	vpFill("ux", &uxIn[0])
	txn.In[0] = uxIn[0].Hash() // the caller's contract: uxIn are the outputs named by txn.In
	var head coin.BlockHeader
	head.Time = vpU64("headTime")
	head.BkSeq = vpU64("headSeq")
	flag := TxnSigned
	if vpBool("unsigned") {
		flag = TxnUnsigned
	}
	err := VerifySingleTxnHardConstraints(txn, head, uxIn, flag)
	if err != nil {
		_, hard := err.(ErrTxnViolatesHardConstraint)
		vpAssert(hard, "hard_failure_reported_as_hard")
		vpReach("hard-rejected")
	} else {
		vpReach("hard-accepted")
	}
	err2 := VerifyBlockTxnConstraints(txn, head, uxIn)
	if err2 != nil {
		_, hard := err2.(ErrTxnViolatesHardConstraint)
		vpAssert(hard, "block_rule_failure_reported_as_hard")
	}
}
