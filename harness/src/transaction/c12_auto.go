package transaction

import (
	"errors"
	"math"

	"github.com/shopspring/decimal"

	"github.com/skycoin/skycoin/src/cipher"
	"github.com/skycoin/skycoin/src/coin"
	"github.com/skycoin/skycoin/src/params"
	"github.com/skycoin/skycoin/src/util/fee"
)

// C12-H2 — transaction.Create in automatic (share) hours mode. shopspring/decimal
// runs for real on math/big interpreted as mathematical integers; the share
// factor is one of 0, 0.5, 1.

// contract of DistributeCoinHoursProportional (checked by vpH_C12_DistributeHours):
// refuses an empty list, a zero amount and sums / hours beyond the signed range;
// otherwise returns one value per amount, summing exactly to hours.
func vpModelDistribute(coins []uint64, hours uint64) ([]uint64, error) {
	if len(coins) == 0 {
		return nil, errors.New("vp: empty")
	}
	var hi, lo uint64
	for _, c := range coins {
		if c == 0 {
			return nil, errors.New("vp: zero")
		}
		hi, lo = vpWideAcc(hi, lo, c)
	}
	if hi != 0 || lo > math.MaxInt64 || hours > math.MaxInt64 {
		return nil, errors.New("vp: range")
	}
	out := make([]uint64, len(coins))
	var shi, slo uint64
	for i := range out {
		out[i] = vpU64("distribute.share")
		shi, slo = vpWideAcc(shi, slo, out[i])
	}
	vpAssume(shi == 0 && slo == hours)
	return out, nil
}

//vp:prop C12
//vp:bounds automatic hours, share factor in {0, 0.5, 1}; 1..2 offered outputs over 2 owner addresses with free coins, initial and accrued hours; 1 destination with free address and coins (hours 0); change address given (free, possibly a destination) or automatic
//vp:assume ChooseSpends summarised by its contract (checked by vpH_C12_ChooseSpends); DistributeCoinHoursProportional summarised by its contract (checked by vpH_C12_DistributeHours); fee.RequiredFee and UxOut.CoinHours summarised by their contracts (C31); offered output ids concrete and distinct; math/big has its documented meaning
//vp:rule github.com/skycoin/skycoin/src/transaction.ChooseSpendsMinimizeUxOuts model:vpModelChoose
//vp:rule github.com/skycoin/skycoin/src/transaction.DistributeCoinHoursProportional model:vpModelDistribute
//vp:rule github.com/skycoin/skycoin/src/util/fee.RequiredFee model:vpModelRequiredFee
//vp:rule (*github.com/skycoin/skycoin/src/coin.UxOut).CoinHours model:vpModelCoinHours
//vp:rule (*github.com/skycoin/skycoin/src/coin.UxOut).Hash model:vpModelUxOutHash
//vp:noreplay callees are summarised
//vp:unwind 40
func vpH_C12_CreateAutoHours() {
	vpChooseAsked, vpChooseGot, vpChooseErr = false, nil, nil
	nUx, nTo := vpLen("nOffered", 1, 2), 1 // two destinations did not finish within 20 minutes
	head := vpU64("headTime")
	var owners [2]cipher.Address
	owners[0].Key[0], owners[1].Key[0] = 9, 2
	auxs := coin.AddressUxOuts{}
	offered := make(coin.UxArray, nUx)
	hours := make([]uint64, nUx)
	var chi, clo, hhi, hlo uint64
	for i := range offered {
		ux := &offered[i]
		ux.Head.BkSeq = 5
		ux.Body.SrcTransaction[0] = byte(i + 1)
		ux.Body.Address = owners[0]
		if i > 0 {
			ux.Body.Address = owners[vpLen("ux.owner", 0, 1)]
		}
		ux.Body.Coins = vpU64("ux.coins")
		ux.Body.Hours = vpU64("ux.hours")
		vpAssume(ux.Body.Coins > 0)
		h, err := ux.CoinHours(head)
		vpAssume(err == nil && h >= ux.Body.Hours)
		hours[i] = h
		chi, clo = vpWideAcc(chi, clo, ux.Body.Coins)
		hhi, hlo = vpWideAcc(hhi, hlo, h)
		auxs[ux.Body.Address] = append(auxs[ux.Body.Address], *ux)
	}
	vpAssume(chi == 0 && hhi == 0)
	fi := vpLen("shareFactor", 0, 2) // 0, 0.5, 1
	factor := [3]decimal.Decimal{decimal.New(0, 0), decimal.New(5, -1), decimal.New(1, 0)}[fi]
	p := Params{HoursSelection: HoursSelection{Type: HoursSelectionTypeAuto, Mode: HoursSelectionModeShare, ShareFactor: &factor}}
	p.To = make([]coin.TransactionOutput, nTo)
	var wantCoins uint64
	for i := range p.To {
		vpFill("to.address", &p.To[i].Address)
		p.To[i].Coins = vpU64("to.coins")
		c, l := vpAdd128(wantCoins, p.To[i].Coins)
		vpAssume(c == 0)
		wantCoins = l
	}
	var change cipher.Address
	if vpBool("changeGiven") {
		vpFill("change", &change)
		p.ChangeAddress = &change
	}
	burn := params.UserVerifyTxn.BurnFactor

	txn, inputs, err := Create(p, auxs, head)
	if err != nil {
		vpAssert(txn == nil, "failure_returns_no_transaction")
		vpReach("refused")
		return
	}
	vpReach("created")
	vpAssert(txn.VerifyUnsigned() == nil, "created_transaction_is_well_formed")
	vpAssert(len(txn.In) == len(inputs) && len(txn.In) >= 1 && len(txn.In) <= nUx, "inputs_reported")
	var inCoins, inHours uint64
	for i := range txn.In {
		found := -1
		for j := range offered {
			if txn.In[i] == offered[j].Hash() {
				found = j
			}
		}
		vpAssert(found >= 0, "spends_only_offered_outputs")
		if found >= 0 {
			inCoins += offered[found].Body.Coins
			inHours += hours[found]
		}
		for k := 0; k < i; k++ {
			vpAssert(txn.In[k] != txn.In[i], "each_output_spent_once")
		}
	}
	vpAssert(len(txn.Out) == nTo || len(txn.Out) == nTo+1, "destinations_plus_optional_change")
	var outCoins, outHours, destHours uint64
	for i := range txn.Out {
		if i < nTo {
			vpAssert(txn.Out[i].Address == p.To[i].Address && txn.Out[i].Coins == p.To[i].Coins, "each_destination_paid_exactly")
			destHours += txn.Out[i].Hours
		}
		outCoins += txn.Out[i].Coins
		outHours += txn.Out[i].Hours
	}
	vpAssert(inCoins == outCoins, "coins_in_equal_coins_out")
	remaining := inHours - fee.RequiredFee(inHours, burn)
	vpAssert(inHours >= outHours && inHours-outHours >= fee.RequiredFee(inHours, burn), "burns_at_least_the_required_fee")
	vpAssert(outHours == remaining, "automatic_mode_wastes_no_hours")
	if len(txn.Out) == nTo+1 {
		ch := txn.Out[nTo]
		vpAssert(ch.Coins == inCoins-wantCoins, "change_output_returns_the_remaining_coins")
		if p.ChangeAddress != nil {
			vpAssert(ch.Address == change, "change_goes_to_the_given_change_address")
		}
		if len(txn.In) == 1 {
			// no extra input can have been pulled in: the destinations share exactly factor x remaining
			allotted := factor.Mul(decimal.New(int64(remaining), 0)).IntPart()
			vpAssert(remaining <= math.MaxInt64 && destHours == uint64(allotted), "automatic_hours_sum_to_the_allotted_amount")
		}
	} else {
		vpAssert(inCoins == wantCoins, "no_change_only_if_nothing_remains")
		vpAssert(destHours == remaining, "without_change_the_destinations_receive_all_remaining_hours")
	}
}

//vp:prop C12
//vp:tier thorough
//vp:bounds the arithmetic for 1 amount below 2^5 and hours below 2^5 (reduced widths); the refusal conditions (empty list, zero amount, sums and hours beyond the signed 64-bit range) on free 64-bit values
//vp:assume math/big has its documented meaning
//vp:timeout 60000
func vpH_C12_DistributeHours() {
	n := vpLen("n", 0, 2)
	coins := make([]uint64, n)
	small := vpBool("smallValues")
	var hi, lo uint64
	anyZero := false
	for i := range coins {
		coins[i] = vpU64("coins")
		if small {
			vpAssume(coins[i] < 1<<5)
		}
		if coins[i] == 0 {
			anyZero = true
		}
		hi, lo = vpWideAcc(hi, lo, coins[i])
	}
	hours := vpU64("hours")
	if small {
		vpAssume(hours < 1<<5)
	}
	out, err := DistributeCoinHoursProportional(coins, hours)
	mustFail := n == 0 || anyZero || hi != 0 || lo > math.MaxInt64 || hours > math.MaxInt64
	if mustFail {
		vpAssert(err != nil, "bad_request_is_refused")
		return
	}
	if !small || n > 1 {
		// the arithmetic itself is only decided for a single amount on the reduced domain:
		// with two amounts the 144-bit products and quotients of the interpreted
		// math/big terms were undecided by every back end within 60 s even for 5-bit values
		return
	}
	vpAssert(err == nil, "valid_request_is_served")
	vpAssert(len(out) == n, "one_share_per_amount")
	var s uint64
	for i := range out {
		s += out[i]
	}
	vpAssert(s == hours, "shares_sum_exactly_to_the_hours")
	if hours >= uint64(n) {
		for i := range out {
			vpAssert(out[i] > 0, "nobody_gets_zero_when_there_is_enough")
		}
	}
}
