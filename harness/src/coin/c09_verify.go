package coin

import (
	"bytes"
	"encoding/binary"

	"github.com/skycoin/skycoin/src/cipher"
	"github.com/skycoin/skycoin/src/cipher/encoder"
)

// C09 — Transaction.verify accepts exactly the documented rule set; decoding is canonical.

//vp:prop C09
//vp:bounds signatures 0..2, inputs 0..2, outputs 0..2 (thorough 0..3) chosen independently (so |sigs| != |in| is covered); Length, Type, InnerHash, every signature, input hash, output address/coins/hours free; signed and unsigned mode
//vp:assume SHA256 is collision free (A-HASH); signature recovery (cipher.VerifySignatureRecoverPubKey) is an uninterpreted predicate of (signature, message hash)
//vp:rule github.com/skycoin/skycoin/src/cipher.VerifySignatureRecoverPubKey uf:sigrecover
//vp:noreplay hashes and signature recovery are uninterpreted
//vp:outside element counts near the 65535 limit (the comparison constants are not reached with <= 2 elements)
func vpH_C09_VerifyIffRules() {
	maxOut := 2
	if vpThorough() {
		maxOut = 3 // three amounts: an overflow before the last addition
	}
	nS, nI, nO := vpLen("nSigs", 0, 2), vpLen("nIn", 0, 2), vpLen("nOut", 0, maxOut)
	signed := vpBool("signed")
	var txn Transaction
	txn.Length = vpU32("length")
	txn.Type = vpU8("type")
	vpFill("innerHash", &txn.InnerHash)
	if nS > 0 {
		txn.Sigs = make([]cipher.Sig, nS)
	}
	if nI > 0 {
		txn.In = make([]cipher.SHA256, nI)
	}
	if nO > 0 {
		txn.Out = make([]TransactionOutput, nO)
	}
	for i := range txn.Sigs {
		vpFill("sig", &txn.Sigs[i])
	}
	for i := range txn.In {
		vpFill("in", &txn.In[i])
	}
	for i := range txn.Out {
		vpFill("out", &txn.Out[i])
	}

	err := txn.verify(signed)

	// ---- the documented rule set, written independently of verify ----
	counts := nI >= 1 && nO >= 1 && nS == nI
	distinctIn := true
	for i := 0; i < nI; i++ {
		for j := i + 1; j < nI; j++ {
			if txn.In[i] == txn.In[j] {
				distinctIn = false
			}
		}
	}
	distinctOut, noZero := true, true
	var chi, clo uint64
	for i := 0; i < nO; i++ {
		for j := i + 1; j < nO; j++ {
			if txn.Out[i] == txn.Out[j] {
				distinctOut = false
			}
		}
		if txn.Out[i].Coins == 0 {
			noZero = false
		}
		c, l := vpAdd128(clo, txn.Out[i].Coins)
		chi, clo = chi+c, l
	}
	typeOK := txn.Type == 0
	sumOK := chi == 0
	lengthOK := uint64(txn.Length) == uint64(37+4+65*nS+4+32*nI+4+37*nO)
	// inner hash = SHA256( LE32(|In|) In... LE32(|Out|) (version key coins hours)... )
	inner := make([]byte, 0, 8+32*nI+37*nO)
	var b4 [4]byte
	var b8 [8]byte
	binary.LittleEndian.PutUint32(b4[:], uint32(nI))
	inner = append(inner, b4[:]...)
	for i := 0; i < nI; i++ {
		inner = append(inner, txn.In[i][:]...)
	}
	binary.LittleEndian.PutUint32(b4[:], uint32(nO))
	inner = append(inner, b4[:]...)
	for i := 0; i < nO; i++ {
		inner = append(inner, txn.Out[i].Address.Version)
		inner = append(inner, txn.Out[i].Address.Key[:]...)
		binary.LittleEndian.PutUint64(b8[:], txn.Out[i].Coins)
		inner = append(inner, b8[:]...)
		binary.LittleEndian.PutUint64(b8[:], txn.Out[i].Hours)
		inner = append(inner, b8[:]...)
	}
	innerOK := cipher.SumSHA256(inner) == txn.InnerHash
	sigsOK, anyNull := true, false
	if nS == nI {
		for i := 0; i < nS; i++ {
			if txn.Sigs[i] == (cipher.Sig{}) {
				anyNull = true
				if signed {
					sigsOK = false
				}
				continue
			}
			if cipher.VerifySignatureRecoverPubKey(txn.Sigs[i], cipher.AddSHA256(txn.InnerHash, txn.In[i])) != nil {
				sigsOK = false
			}
		}
	}
	if !signed && !anyNull {
		sigsOK = false
	}
	wellFormed := counts && distinctIn && distinctOut && typeOK && noZero && sumOK && lengthOK && innerOK && sigsOK

	if err == nil {
		vpAssert(wellFormed, "accepted_only_if_every_rule_holds")
		vpReach("accepted")
	} else {
		vpAssert(!wellFormed, "rejected_only_if_some_rule_fails")
		vpReach("rejected")
	}
}

//vp:prop C09 C21
//vp:bounds byte strings of every length 0..53 and of lengths 86, 118, 150, 151, 183, 184, 215, 220 with free content (covers up to 2 signatures/inputs and 3 outputs and one trailing byte)
//vp:maxvalues 300
//vp:unwind 300
func vpH_C09_DecodeCanonical() {
	lens := [62]int{86, 118, 150, 151, 183, 184, 215, 220}
	idx := vpLen("lenIdx", 0, 61)
	n := idx - 8
	if idx < 8 {
		n = lens[idx]
	}
	buf := vpBytes("buf", n)
	txn, err := DeserializeTransaction(buf)
	if err != nil {
		vpReach("rejected")
		return
	}
	out, err2 := txn.Serialize()
	vpAssert(err2 == nil, "decoded_transaction_serializes")
	vpAssert(bytes.Equal(out, buf), "reencoding_gives_the_same_bytes")
	vpReach("accepted")
}

// Element-count limits of the transaction codec: a length prefix above 65535
// on the signature, input or output array is refused as such
// (ErrMaxLenExceeded) when that many bytes follow, and as a buffer underflow
// otherwise, by decoder and encoder alike.
//
//vp:prop C09 C21
//vp:bounds one of the three arrays (the earlier ones empty) carries a free 32-bit length prefix above 65535, followed by 65540 zero bytes; encoder side: the array has 65536 elements
//vp:maxvalues 8
//vp:unwind 70000
func vpH_C09_ArrayLimit() {
	which := vpLen("array", 0, 2)
	count := vpU32("count")
	vpAssume(count > 65535)
	const tail = 65540
	buf := make([]byte, 37+4*which+4+tail)
	for i := 0; i < 37; i++ {
		buf[i] = vpU8("header")
	}
	binary.LittleEndian.PutUint32(buf[37+4*which:], count)
	var txn Transaction
	_, err := decodeTransaction(buf, &txn)
	if count > tail {
		vpAssert(err == encoder.ErrBufferUnderflow, "length_beyond_the_buffer_is_an_underflow")
	} else {
		vpAssert(err == encoder.ErrMaxLenExceeded, "length_above_the_limit_is_refused_as_too_long")
	}
	_, err = DeserializeTransaction(buf)
	vpAssert(err != nil, "length_above_the_limit_does_not_decode")

	var big Transaction
	switch which {
	case 0:
		big.Sigs = make([]cipher.Sig, 65536)
	case 1:
		big.In = make([]cipher.SHA256, 65536)
	case 2:
		big.Out = make([]TransactionOutput, 65536)
	}
	_, eerr := encodeTransaction(&big)
	vpAssert(eerr == encoder.ErrMaxLenExceeded, "encoder_refuses_above_the_limit")
}
