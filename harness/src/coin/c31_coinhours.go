package coin

// C31-H3 — UxOut.CoinHours against hours + floor(coins*seconds/3.6e9), with an
// error exactly when an intermediate or the final sum does not fit in 64 bits.

//vp:prop C31 C03
//vp:bounds none: loop-free; Head.Time, t, Coins, Hours free 64-bit
func vpH_C31_CoinHours() {
	var ux UxOut
	ux.Head.Time = vpU64("time")
	ux.Body.Coins = vpU64("coins")
	ux.Body.Hours = vpU64("hours")
	t := vpU64("t")
	got, err := ux.CoinHours(t)
	if t < ux.Head.Time {
		vpAssert(err == nil && got == ux.Body.Hours, "before_creation_returns_initial_hours")
		return
	}
	s := t - ux.Head.Time
	whole := ux.Body.Coins / 1000000
	rem := ux.Body.Coins % 1000000
	h1, l1 := vpMul128(s, whole)
	h2, l2 := vpMul128(s, rem)
	if h1 != 0 || h2 != 0 {
		vpAssert(err != nil && err != ErrAddEarnedCoinHoursAdditionOverflow, "product_overflow_is_error")
		vpReach("product-overflow")
		return
	}
	chi, clo := vpAdd128(l1, l2/1000000)
	if chi != 0 {
		vpAssert(err != nil, "coin_seconds_sum_overflow_is_error")
		vpReach("sum-overflow")
		return
	}
	earned := clo / 3600
	thi, tlo := vpAdd128(ux.Body.Hours, earned)
	if thi != 0 {
		vpAssert(err == ErrAddEarnedCoinHoursAdditionOverflow, "final_overflow_is_the_distinguished_error")
		vpReach("final-overflow")
	} else {
		vpAssert(err == nil, "no_spurious_error")
		vpAssert(got == tlo, "value_is_hours_plus_earned")
		vpReach("value")
	}
}

//vp:prop C31 C03
//vp:bounds none: loop-free; coins, seconds free 64-bit with both partial products fitting
func vpH_C31_CoinHoursFormula() {
	// the two-step rounding used by the code equals floor(coins*s/3.6e9)
	coins, s := vpU64("coins"), vpU64("s")
	whole := coins / 1000000
	rem := coins % 1000000
	h1, l1 := vpMul128(s, whole)
	h2, l2 := vpMul128(s, rem)
	vpAssume(h1 == 0 && h2 == 0)
	chi, clo := vpAdd128(l1, l2/1000000)
	vpAssume(chi == 0)
	phi, plo := vpMul128(coins, s)
	qhi, qlo, _ := vpDivMod128(phi, plo, 3600000000)
	vpAssert(qhi == 0 && qlo == clo/3600, "two_step_rounding_equals_floor_of_exact_quotient")
}
