package coin

import (
	"github.com/skycoin/skycoin/src/cipher"
)

// C10-H2 — every byte of a well-formed signed transaction outside the
// signature array is determined by what the signatures sign: two accepted
// transactions whose signed messages coincide agree on all those bytes.

func vpFreeTxn(tag string, nIn, nOut int) *Transaction {
	t := &Transaction{}
	t.Length = vpU32(tag + ".length")
	t.Type = vpU8(tag + ".type")
	vpFill(tag+".inner", &t.InnerHash)
	t.Sigs = make([]cipher.Sig, nIn)
	t.In = make([]cipher.SHA256, nIn)
	t.Out = make([]TransactionOutput, nOut)
	for i := range t.In {
		vpFill(tag+".sig", &t.Sigs[i])
		vpFill(tag+".in", &t.In[i])
	}
	for i := range t.Out {
		vpFill(tag+".out", &t.Out[i])
	}
	return t
}

//vp:prop C10
//vp:bounds two transactions with 1..2 inputs each (equal counts) and 1..2 outputs each (counts chosen independently), every field free
//vp:assume SHA256 collision free (A-HASH); signature recovery is an uninterpreted predicate
//vp:rule github.com/skycoin/skycoin/src/cipher.VerifySignatureRecoverPubKey uf:sigrecover
//vp:noreplay hashes are uninterpreted
func vpH_C10_SignedBytesAreBound() {
	nIn := vpLen("nIn", 1, 2)
	t1 := vpFreeTxn("a", nIn, vpLen("nOutA", 1, 2))
	t2 := vpFreeTxn("b", nIn, vpLen("nOutB", 1, 2))
	vpAssume(t1.Verify() == nil && t2.Verify() == nil)
	for i := 0; i < nIn; i++ {
		// the messages the signatures sign coincide
		vpAssume(cipher.AddSHA256(t1.InnerHash, t1.In[i]) == cipher.AddSHA256(t2.InnerHash, t2.In[i]))
	}
	vpReach("both-accepted")
	vpAssert(t1.Length == t2.Length && t1.Type == t2.Type && t1.InnerHash == t2.InnerHash, "header_bytes_are_bound_by_the_signed_messages")
	vpAssert(len(t1.Out) == len(t2.Out), "output_count_is_bound")
	for i := 0; i < nIn; i++ {
		vpAssert(t1.In[i] == t2.In[i], "inputs_are_bound_in_order")
	}
	if len(t1.Out) == len(t2.Out) {
		for i := range t1.Out {
			vpAssert(t1.Out[i] == t2.Out[i], "outputs_are_bound_in_order")
		}
	}
}
