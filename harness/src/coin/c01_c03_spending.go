package coin

import "errors"

// C01-H1 / C03-H1,H2 — coin and coin-hour conservation kernels of a transaction.

// vpWideSum adds v into the 128-bit accumulator (hi:lo).
func vpWideAcc(hi, lo, v uint64) (uint64, uint64) {
	c, l := vpAdd128(lo, v)
	return hi + c, l
}

//vp:prop C01
//vp:bounds inputs 0..3 x outputs 0..3 (quick), 0..4 x 0..4 (thorough); every Coins field free 64-bit
func vpH_C01_CoinsSpending() {
	max := 3
	if vpThorough() {
		max = 4
	}
	nIn, nOut := vpLen("nIn", 0, max), vpLen("nOut", 0, max)
	uxIn, uxOut := make(UxArray, nIn), make(UxArray, nOut)
	var ihi, ilo, ohi, olo uint64
	for i := range uxIn {
		uxIn[i].Body.Coins = vpU64("inCoins")
		ihi, ilo = vpWideAcc(ihi, ilo, uxIn[i].Body.Coins)
	}
	for i := range uxOut {
		uxOut[i].Body.Coins = vpU64("outCoins")
		ohi, olo = vpWideAcc(ohi, olo, uxOut[i].Body.Coins)
	}
	err := VerifyTransactionCoinsSpending(uxIn, uxOut)
	if err == nil {
		vpAssert(ihi == 0, "accepted_input_sum_fits_64_bits")
		vpAssert(ohi == 0, "accepted_output_sum_fits_64_bits")
		vpAssert(ilo == olo, "accepted_means_true_sums_equal")
		vpReach("accepted")
	} else {
		vpAssert(ihi != 0 || ohi != 0 || ilo != olo, "balanced_non_overflowing_sums_not_rejected")
		vpReach("rejected")
	}
}

// The output section of Transaction.verify: accepted => no zero-coin output and
// the true sum of output coins fits in 64 bits. (The rest of verify is C09.)
//
//vp:prop C01
//vp:bounds UxArray.Coins / Transaction.OutputHours style checked sums over 0..4 elements, all values free 64-bit
func vpH_C01_CheckedSums() {
	n := vpLen("n", 0, 4)
	ua := make(UxArray, n)
	txn := Transaction{Out: make([]TransactionOutput, n)}
	var chi, clo, hhi, hlo uint64
	for i := range ua {
		ua[i].Body.Coins = vpU64("coins")
		txn.Out[i].Hours = vpU64("hours")
		chi, clo = vpWideAcc(chi, clo, ua[i].Body.Coins)
		hhi, hlo = vpWideAcc(hhi, hlo, txn.Out[i].Hours)
	}
	c, err := ua.Coins()
	if chi != 0 {
		vpAssert(err != nil, "coin_sum_overflow_is_error")
	} else {
		vpAssert(err == nil && c == clo, "coin_sum_exact")
	}
	h, err2 := txn.OutputHours()
	if hhi != 0 {
		vpAssert(err2 != nil, "output_hours_overflow_is_error")
	} else {
		vpAssert(err2 == nil && h == hlo, "output_hours_sum_exact")
	}
}

// vpModelCoinHours is the contract of UxOut.CoinHours used where callers are
// checked: a deterministic function of (Head.Time, Coins, Hours, t) that
// returns a value and no error, or the distinguished final-addition overflow
// error, or some other error. vpH_C31_CoinHours (also run under C03) proves the
// real function equal to the specified formula for all values.
func vpModelCoinHours(uo *UxOut, t uint64) (uint64, error) {
	kind := vpUF64("coinhours.kind", uo.Head.Time, uo.Body.Coins, uo.Body.Hours, t) % 3
	switch kind {
	case 1:
		return 0, ErrAddEarnedCoinHoursAdditionOverflow
	case 2:
		return 0, vpErrOther
	}
	return vpUF64("coinhours.value", uo.Head.Time, uo.Body.Coins, uo.Body.Hours, t), nil
}

var vpErrOther = errors.New("vp: intermediate overflow in CoinHours")

//vp:prop C03
//vp:bounds inputs 0..3 x outputs 0..3; Head.Time, Coins, Hours of every input, Hours of every output and the head time free 64-bit
//vp:assume UxOut.CoinHours summarised by its contract (deterministic; value | distinguished overflow error | other error); the real function is checked against the formula by vpH_C31_CoinHours for all values
//vp:rule (*github.com/skycoin/skycoin/src/coin.UxOut).CoinHours model:vpModelCoinHours
//vp:noreplay UxOut.CoinHours is replaced by its contract
func vpH_C03_HoursSpending() {
	nIn, nOut := vpLen("nIn", 0, 3), vpLen("nOut", 0, 3)
	head := vpU64("headTime")
	uxIn, uxOut := make(UxArray, nIn), make(UxArray, nOut)
	var ihi, ilo, out uint64
	hard := false
	for i := range uxIn {
		uxIn[i].Head.Time = vpU64("inTime")
		uxIn[i].Body.Coins = vpU64("inCoins")
		uxIn[i].Body.Hours = vpU64("inHours")
		v, e := uxIn[i].CoinHours(head)
		if e == ErrAddEarnedCoinHoursAdditionOverflow {
			v = 0 // the documented legacy exception: counts as zero
		} else if e != nil {
			hard = true
		}
		ihi, ilo = vpWideAcc(ihi, ilo, v)
	}
	for i := range uxOut {
		uxOut[i].Body.Hours = vpU64("outHours")
		out += uxOut[i].Body.Hours // wrapping sum: the documented legacy behaviour for blocks
	}
	err := VerifyTransactionHoursSpending(head, uxIn, uxOut)
	if err == nil {
		vpAssert(!hard, "input_with_overflowing_intermediate_rejected")
		vpAssert(ihi == 0, "accepted_input_hours_fit_64_bits")
		vpAssert(out <= ilo, "accepted_output_hours_not_above_accrued_input_hours")
		vpReach("accepted")
	} else {
		vpAssert(hard || ihi != 0 || out > ilo, "no_spurious_rejection")
		vpReach("rejected")
	}
}

// End to end on the real CoinHours for a single input (no summary).
//
//vp:prop C03
//vp:bounds 1 input x 0..2 outputs, all fields and the head time free 64-bit
func vpH_C03_HoursSpendingOneInputReal() {
	nOut := vpLen("nOut", 0, 2)
	head := vpU64("headTime")
	uxIn, uxOut := make(UxArray, 1), make(UxArray, nOut)
	uxIn[0].Head.Time = vpU64("inTime")
	uxIn[0].Body.Coins = vpU64("inCoins")
	uxIn[0].Body.Hours = vpU64("inHours")
	var out uint64
	for i := range uxOut {
		uxOut[i].Body.Hours = vpU64("outHours")
		out += uxOut[i].Body.Hours
	}
	err := VerifyTransactionHoursSpending(head, uxIn, uxOut)
	// specified accrued hours of the input (C31 formula), 128-bit arithmetic
	in, hard := uxIn[0].Body.Hours, false
	if head >= uxIn[0].Head.Time {
		s := head - uxIn[0].Head.Time
		h1, l1 := vpMul128(s, uxIn[0].Body.Coins/1000000)
		h2, l2 := vpMul128(s, uxIn[0].Body.Coins%1000000)
		chi, clo := vpAdd128(l1, l2/1000000)
		if h1 != 0 || h2 != 0 || chi != 0 {
			hard = true
		} else {
			thi, tlo := vpAdd128(uxIn[0].Body.Hours, clo/3600)
			in = tlo
			if thi != 0 {
				in = 0 // legacy exception
			}
		}
	}
	if err == nil {
		vpAssert(!hard && out <= in, "accepted_output_hours_not_above_specified_accrued_hours")
		vpReach("accepted")
	} else {
		vpAssert(hard || out > in, "no_spurious_rejection")
		vpReach("rejected")
	}
}

//vp:prop C03
//vp:tier thorough
//vp:timeout 120000
//vp:bounds loop-free; Head.Time, Hours free 64-bit, Coins < 2^32, elapsed seconds t1-Time <= t2-Time < 2^31 (two-run non-linear query; the full 64-bit domain is not decided by any installed solver within 120 s - monotonicity over the full domain follows mathematically from the closed form proved by vpH_C31_CoinHours)
func vpH_C03_CoinHoursMonotone() {
	var ux UxOut
	ux.Head.Time = vpU64("time")
	ux.Body.Coins = vpU64("coins")
	ux.Body.Hours = vpU64("hours")
	t1, t2 := vpU64("t1"), vpU64("t2")
	vpAssume(ux.Head.Time <= t1 && t1 <= t2)
	vpAssume(ux.Body.Coins < 1<<32 && t2-ux.Head.Time < 1<<31)
	h1, e1 := ux.CoinHours(t1)
	h2, e2 := ux.CoinHours(t2)
	if e1 == nil && e2 == nil {
		vpAssert(h1 <= h2, "accrued_hours_never_decrease_with_time")
		vpAssert(h1 >= ux.Body.Hours, "accrued_hours_at_least_initial_hours")
	}
	if e1 != nil {
		vpAssert(e2 != nil, "overflow_error_persists_as_time_moves_on")
	}
}
