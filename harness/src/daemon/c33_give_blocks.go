package daemon

import (
	"github.com/skycoin/skycoin/src/coin"
	"github.com/skycoin/skycoin/src/daemon/gnet"
)

// C33-H1 — one delivery of a GiveBlocksMessage moves the follower's head to the
// end of the longest gap-free run of publisher blocks above its head contained
// in the message (in message order), never executes anything else, and keeps
// requesting blocks above the new head.

type vpSyncDaemon struct {
	daemoner
	head     uint64
	reqCount uint64
	executed []uint64
	sent     []gnet.Message
}

func (d *vpSyncDaemon) DaemonConfig() DaemonConfig {
	return DaemonConfig{GetBlocksRequestCount: d.reqCount}
}
func (d *vpSyncDaemon) headBkSeq() (uint64, bool, error) { return d.head, true, nil }

// executeSignedBlock follows C04's acceptance predicate: a block is appended iff
// it is the publisher's block (Version == 1 marks "correctly signed, valid
// successor content") and its sequence number is head+1.
func (d *vpSyncDaemon) executeSignedBlock(b coin.SignedBlock) error {
	if b.Head.Version != 1 || b.Head.BkSeq != d.head+1 {
		return vpErrReject
	}
	d.head++
	d.executed = append(d.executed, b.Head.BkSeq)
	return nil
}
func (d *vpSyncDaemon) broadcastMessage(m gnet.Message) ([]uint64, error) {
	d.sent = append(d.sent, m)
	return nil, nil
}

type vpRejectErr struct{}

func (vpRejectErr) Error() string { return "block rejected" }

var vpErrReject = vpRejectErr{}

//vp:prop C33
//vp:bounds one message of 0..4 blocks with free sequence numbers and a free genuine/forged flag each; follower head free below 2^62; request count free
//vp:assume block acceptance follows C04's predicate: appended iff publisher-signed valid successor with seq = head+1
//vp:noreplay the daemon is a fake
func vpH_C33_GiveBlocksProcess() {
	n := vpLen("nBlocks", 0, 4)
	head0 := vpU64("head")
	vpAssume(head0 < 1<<62)
	d := &vpSyncDaemon{head: head0, reqCount: vpU64("requestCount")}
	m := &GiveBlocksMessage{Blocks: make([]coin.SignedBlock, n)}
	for i := range m.Blocks {
		m.Blocks[i].Head.BkSeq = vpU64("seq")
		m.Blocks[i].Head.Version = uint32(vpLen("genuine", 0, 1))
	}
	m.process(d)

	// reference: walk the message once
	cur := head0
	for i := 0; i < n; i++ {
		s := m.Blocks[i].Head.BkSeq
		if s <= head0 {
			continue // already held: skipped, not a failure
		}
		if m.Blocks[i].Head.Version == 1 && s == cur+1 {
			cur++
			continue
		}
		break
	}
	vpAssert(d.head == cur, "head_advances_over_the_gap_free_publisher_run")
	vpAssert(uint64(len(d.executed)) == cur-head0, "only_the_run_is_executed")
	for i := range d.executed {
		vpAssert(d.executed[i] == head0+1+uint64(i), "blocks_executed_in_sequence")
	}
	if cur == head0 {
		vpAssert(len(d.sent) == 0, "no_progress_no_broadcast")
		vpReach("no-progress")
	} else {
		vpAssert(len(d.sent) == 2, "progress_announces_and_requests_more")
		if len(d.sent) == 2 {
			abm, ok1 := d.sent[0].(*AnnounceBlocksMessage)
			gbm, ok2 := d.sent[1].(*GetBlocksMessage)
			vpAssert(ok1 && ok2, "announce_then_get_blocks")
			if ok1 && ok2 {
				vpAssert(abm.MaxBkSeq == cur, "announces_new_head")
				vpAssert(gbm.LastBlock == cur && gbm.RequestedBlocks == d.reqCount, "requests_blocks_above_new_head")
			}
		}
		vpReach("progress")
	}
}
