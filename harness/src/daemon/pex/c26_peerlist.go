package pex

import (
	"strings"
	"time"
)

// C26 — the peer list holds only validated (sanitised) addresses, bulk additions
// respect the configured maximum, trusted peers are never evicted or expired.

var vpCandidates = [5]string{"11.22.33.44:6000", " 11.22.33.44:6000", "11.22.33.45:6001\n", "bad:1", "11.22.33.46:6002"}

// Contract of validateAddress (its text parsing - regular expression, net.ParseIP,
// strconv - is not executed here): whitespace is removed; the result is accepted
// iff it is one of the well-formed public addresses.
func vpModelValidate(s string, allowLocalhost bool) (string, error) {
	clean := strings.ReplaceAll(strings.ReplaceAll(s, " ", ""), "\n", "")
	switch clean {
	case "11.22.33.44:6000", "11.22.33.45:6001", "11.22.33.46:6002", "11.22.33.47:6003":
		return clean, nil
	}
	return "", ErrInvalidAddress
}

// the clock: a fixed instant (last-seen times are chosen relative to it)
func vpModelNow() time.Time { return time.Unix(1700000000, 0) }

// rand.Shuffle: an arbitrary permutation (n <= 3)
func vpModelShuffle(n int, swap func(i, j int)) {
	if n >= 2 && vpBool("swap01") {
		swap(0, 1)
	}
	if n >= 3 && vpBool("swap12") {
		swap(1, 2)
	}
	if n >= 3 && vpBool("swap01b") {
		swap(0, 1)
	}
}

func vpIsClean(a string) bool {
	c, err := vpModelValidate(a, false)
	return err == nil && c == a
}

//vp:prop C26
//vp:bounds peer list of 0..2 existing peers (trusted or not, last seen just now / two days ago / never, any retry count 0..1000), configured maximum 0 (unlimited)..3; one operation: AddPeers with 0..3 addresses drawn from 5 candidates (clean, whitespace-bearing, malformed), AddPeer with one candidate, or expiry of old peers; fixed clock, expiry after one hour or one week; any shuffle
//vp:assume validateAddress is summarised by its contract (strip whitespace, accept the well-formed public addresses); rand.Shuffle is an arbitrary permutation; the clock is a fixed instant
//vp:rule github.com/skycoin/skycoin/src/daemon/pex.validateAddress model:vpModelValidate
//vp:rule math/rand.Shuffle model:vpModelShuffle
//vp:rule time.Now model:vpModelNow
//vp:noreplay address validation and randomness are models
//vp:unwind 40
func vpH_C26_PeerListStep() {
	px := &Pex{peerlist: newPeerlist()}
	px.Config.Max = vpLen("max", 0, 3)
	nPre := vpLen("nExisting", 0, 2)
	pre := [2]string{"11.22.33.44:6000", "11.22.33.47:6003"}
	trusted := [2]bool{}
	age := [2]int64{}
	for i := 0; i < nPre; i++ {
		p := NewPeer(pre[i])
		p.LastSeen = [3]int64{1700000000 - 10, 1700000000 - 2*86400, 0}[vpLen("lastSeen", 0, 2)] // just now, two days ago, never
		p.Trusted = vpBool("trusted")
		trusted[i] = p.Trusted
		p.RetryTimes = vpInt("retryTimes") // any retry count: staleness is about age only
		vpAssume(p.RetryTimes >= 0 && p.RetryTimes <= 1000)
		age[i] = 1700000000 - p.LastSeen
		px.peerlist.peers[pre[i]] = p
	}
	before := px.peerlist.len()

	switch vpLen("operation", 0, 2) {
	case 0:
		n := vpLen("nAddrs", 0, 3)
		addrs := make([]string, n)
		for i := range addrs {
			addrs[i] = vpCandidates[vpLen("candidate", 0, 4)]
		}
		px.AddPeers(addrs)
		if px.Config.Max > 0 {
			lim := px.Config.Max
			if before > lim {
				lim = before
			}
			vpAssert(px.peerlist.len() <= lim, "bulk_addition_never_grows_the_list_beyond_the_maximum")
		}
		for i := 0; i < nPre; i++ {
			vpAssert(px.peerlist.hasPeer(pre[i]), "bulk_addition_evicts_nobody")
		}
	case 1:
		px.AddPeer(vpCandidates[vpLen("candidate", 0, 4)]) //nolint:errcheck
		for i := 0; i < nPre; i++ {
			if trusted[i] {
				vpAssert(px.peerlist.hasPeer(pre[i]), "trusted_peer_not_evicted_to_make_room")
			}
		}
	case 2:
		maxAge := [2]time.Duration{time.Hour, 7 * 24 * time.Hour}[vpLen("maxAge", 0, 1)]
		px.peerlist.clearOld(maxAge)
		for i := 0; i < nPre; i++ {
			if trusted[i] {
				vpAssert(px.peerlist.hasPeer(pre[i]), "trusted_peer_not_dropped_as_stale")
			} else {
				vpAssert(px.peerlist.hasPeer(pre[i]) == (time.Duration(age[i])*time.Second <= maxAge), "untrusted_peer_dropped_exactly_when_older_than_the_limit")
			}
		}
	}
	for a, p := range px.peerlist.peers {
		vpAssert(vpIsClean(a) && p != nil && p.Addr == a, "every_listed_address_is_a_validated_sanitised_address")
	}
}
