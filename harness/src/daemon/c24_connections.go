package daemon

// C24 — the five connection indexes describe exactly the live connections.
// A pre-state is built through the real API (so it is reachable), then
// arbitrary events are applied; after every event the indexes are compared
// with a shadow list of live connections kept by the statement's rules.

type vpConn struct {
	addr, ip   string
	port       uint16
	state      int // 1 pending, 2 connected, 3 introduced
	outgoing   bool
	gnetID     uint64
	mirror     uint32
	listenPort uint16
}

var vpAddrs = [3]string{"1.1.1.1:6000", "1.1.1.1:6001", "2.2.2.2:6000"}
var vpIPs = [3]string{"1.1.1.1", "1.1.1.1", "2.2.2.2"}
var vpPorts = [3]uint16{6000, 6001, 6000}
var vpListenPorts = [2]uint16{0, 6001} // 6001: the listen address of an incoming connection can coincide with an outgoing address

type vpWorld struct {
	c    *Connections
	live []vpConn
}

func (w *vpWorld) find(addr string) int {
	for i := range w.live {
		if w.live[i].addr == addr {
			return i
		}
	}
	return -1
}

func vpListenAddr(v *vpConn) string {
	if v.listenPort == 0 {
		return ""
	}
	switch v.listenPort {
	case 6000:
		return v.ip + ":6000"
	case 6001:
		return v.ip + ":6001"
	}
	return v.ip + ":7000"
}

// event applies one arbitrary event to the real Connections and to the shadow
// list, asserting that the real call succeeds exactly when the statement's
// transition rules allow it.
func (w *vpWorld) event(kind, a int) {
	addr, ip := vpAddrs[a], vpIPs[a]
	i := w.find(addr)
	switch kind {
	case 0: // outgoing attempt
		_, err := w.c.pending(addr)
		if i >= 0 {
			vpAssert(err == ErrConnectionExists, "pending_on_known_address_refused")
			return
		}
		vpAssert(err == nil, "pending_on_new_address_accepted")
		w.live = append(w.live, vpConn{addr: addr, ip: ip, port: vpPorts[a], state: 1, outgoing: true, listenPort: vpPorts[a]})
	case 1: // connect
		id := vpU64("gnetID")
		for k := range w.live { // gnet hands out unique ids
			vpAssume(w.live[k].gnetID != id || w.live[k].state == 1)
		}
		_, err := w.c.connected(addr, id)
		if id == 0 || (i >= 0 && w.live[i].state != 1) {
			vpAssert(err != nil, "connect_refused_for_zero_id_or_already_connected")
			return
		}
		vpAssert(err == nil, "connect_accepted")
		if i < 0 {
			w.live = append(w.live, vpConn{addr: addr, ip: ip, port: vpPorts[a], state: 2, gnetID: id})
		} else {
			w.live[i].state, w.live[i].gnetID = 2, id
		}
	case 2: // introduce
		id := vpU64("gnetID")
		m := &IntroductionMessage{Mirror: vpU32("mirror"), ListenPort: vpListenPorts[vpLen("listenPort", 0, 1)]}
		_, err := w.c.introduced(addr, id, m)
		ok := id != 0 && i >= 0 && w.live[i].state == 2 && w.live[i].gnetID == id
		if ok {
			for k := range w.live {
				if w.live[k].state == 3 && w.live[k].ip == ip && w.live[k].mirror == m.Mirror {
					ok = false
				}
			}
		}
		if !ok {
			vpAssert(err != nil, "introduction_only_from_connected_with_matching_id_and_free_ip_mirror")
			return
		}
		vpAssert(err == nil, "valid_introduction_accepted")
		w.live[i].state, w.live[i].mirror = 3, m.Mirror
		if !w.live[i].outgoing {
			w.live[i].listenPort = m.ListenPort
		}
	case 3: // disconnect / failure
		id := vpU64("gnetID")
		err := w.c.remove(addr, id)
		if i < 0 || w.live[i].gnetID != id {
			vpAssert(err != nil, "remove_of_unknown_connection_or_wrong_id_refused")
			return
		}
		vpAssert(err == nil, "remove_accepted")
		w.live = append(w.live[:i:i], w.live[i+1:]...)
	}
}

// check compares the five indexes with the shadow list.
func (w *vpWorld) check() {
	c := w.c
	vpAssert(len(c.conns) == len(w.live), "conns_holds_exactly_the_live_connections")
	for _, ip := range [2]string{"1.1.1.1", "2.2.2.2"} {
		n := 0
		for k := range w.live {
			if w.live[k].ip == ip {
				n++
			}
		}
		vpAssert(c.ipCounts[ip] == n, "ip_count_is_number_of_live_connections_of_that_ip")
	}
	nIntro, nID, nListen := 0, 0, 0
	for k := range w.live {
		v := &w.live[k]
		rc := c.conns[v.addr]
		vpAssert(rc != nil, "live_connection_is_registered")
		if v.state >= 2 {
			nID++
			vpAssert(c.gnetIDs[v.gnetID] == v.addr, "connection_id_maps_to_its_address")
		}
		if v.state == 3 {
			nIntro++
			p, ok := c.mirrors[v.mirror][v.ip]
			vpAssert(ok && p == v.listenPort, "introduced_connection_is_in_the_ip_mirror_registry")
			for j := k + 1; j < len(w.live); j++ {
				u := &w.live[j]
				vpAssert(!(u.state == 3 && u.ip == v.ip && u.mirror == v.mirror), "introduced_connections_never_share_ip_and_mirror")
			}
		}
		// listen-address index: outgoing connections from the attempt on, incoming ones once introduced
		if la := vpListenAddr(v); la != "" && (v.outgoing || v.state == 3) {
			nListen++
			cnt := 0
			for _, x := range c.listenAddrs[la] {
				if x == v.addr {
					cnt++
				}
			}
			vpAssert(cnt == 1, "listen_address_index_lists_the_connection_once")
		}
	}
	nm := 0
	for _, x := range c.mirrors {
		nm += len(x)
	}
	vpAssert(nm == nIntro, "ip_mirror_registry_has_no_stale_entries")
	vpAssert(len(c.gnetIDs) == nID, "connection_id_map_has_no_stale_entries")
	nl := 0
	for _, x := range c.listenAddrs {
		nl += len(x)
	}
	vpAssert(nl == nListen, "listen_address_index_has_no_stale_entries")
}

func (w *vpWorld) removeAllAndCheckEmpty() {
	for len(w.live) > 0 {
		v := w.live[0]
		vpAssert(w.c.remove(v.addr, v.gnetID) == nil, "live_connection_can_be_removed")
		w.live = w.live[1:]
	}
	c := w.c
	vpAssert(len(c.conns) == 0 && len(c.mirrors) == 0 && len(c.gnetIDs) == 0 && len(c.listenAddrs) == 0, "all_indexes_empty_after_removing_everything")
	vpAssert(c.IPCount("1.1.1.1") == 0 && c.IPCount("2.2.2.2") == 0, "ip_counts_zero_after_removing_everything")
}

//vp:prop C24
//vp:bounds 3 addresses on 2 IPs; pre-state: up to 2 connections each driven through the real API to pending / connected / introduced with free connection ids, mirrors and listen ports in {0,6001}; then 1 arbitrary event (quick: from up to 2 pre-state connections) or 2 arbitrary events (thorough: from up to 1 pre-state connection) (outgoing attempt, connect, introduce, remove) with free ids and mirrors; finally every live connection is removed
//vp:assume gnet hands out non-repeating connection ids (an id passed to connect is not held by another live connection)
//vp:noreplay shadow model harness (natively replayable in principle; kept symbolic-only for speed)
func vpH_C24_StepInvariant() {
	w := &vpWorld{c: NewConnections()}
	// reachable pre-state: each of two slots runs a prefix of attempt/connect/introduce
	slots, steps := 2, 1
	if vpThorough() && vpLen("shape", 0, 1) == 1 {
		slots, steps = 1, 2 // two events from two pre-state connections exceed the path limit
	}
	for slot := 0; slot < slots; slot++ {
		a := 0 // first connection: 1.1.1.1:6000; second: same IP other port, or another IP
		if slot == 1 {
			a = vpLen("secondAddr", 1, 2)
		}
		depth := vpLen("preDepth", 0, 3)
		if depth >= 1 && vpLen("outgoing", 0, 1) == 1 {
			w.event(0, a)
		}
		if depth >= 2 {
			w.event(1, a)
		}
		if depth >= 3 {
			w.event(2, a)
		}
	}
	w.check()
	for s := 0; s < steps; s++ {
		w.event(vpLen("event", 0, 3), vpLen("addr", 0, 2))
		w.check()
	}
	w.removeAllAndCheckEmpty()
	vpReach("end")
}
