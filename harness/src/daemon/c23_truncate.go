package daemon

import (
	"github.com/skycoin/skycoin/src/cipher"
	"github.com/skycoin/skycoin/src/coin"
	"github.com/skycoin/skycoin/src/daemon/pex"
)

// C23 — every message constructor returns a message whose wire encoding
// (4-byte length prefix + 4-byte message id + body, the quantity
// gnet.sendMessage compares with MaxOutgoingMessageLength) fits the limit and
// holds the longest fitting prefix of the requested items.

// vpWireLen is the length of gnet.EncodeMessage's result for a body of n bytes:
// length prefix (4) + message id (4) + body.
func vpWireLen(body uint64) uint64 { return 8 + body }

func vpTxnOfShape(nIn, nOut int) coin.Transaction {
	return coin.Transaction{
		Sigs: make([]cipher.Sig, nIn),
		In:   make([]cipher.SHA256, nIn),
		Out:  make([]coin.TransactionOutput, nOut),
	}
}

//vp:prop C23
//vp:bounds 0..4 hashes requested; maxMsgLength free 64-bit with room for an empty message (>= 12)
//vp:assume maxMsgLength >= 12: an empty message fits (daemon.NewConfig enforces a far larger lower bound)
func vpH_C23_AnnounceTxns() {
	n := vpLen("n", 0, 4)
	max := vpU64("max")
	vpAssume(max >= 12)
	req := make([]cipher.SHA256, n)
	m := NewAnnounceTxnsMessage(req, max)
	got := len(m.Transactions)
	vpAssert(got <= n, "result_is_prefix_of_request")
	vpAssert(vpWireLen(m.EncodeSize()) <= max, "encoded_message_fits_limit")
	if got < n {
		bigger := &AnnounceTxnsMessage{Transactions: req[:got+1]}
		vpAssert(vpWireLen(bigger.EncodeSize()) > max, "one_more_item_would_not_fit")
		vpReach("truncated")
	}
}

//vp:prop C23
//vp:bounds 0..4 hashes requested; maxMsgLength free 64-bit >= 12
//vp:assume maxMsgLength >= 12: an empty message fits
func vpH_C23_GetTxns() {
	n := vpLen("n", 0, 4)
	max := vpU64("max")
	vpAssume(max >= 12)
	req := make([]cipher.SHA256, n)
	m := NewGetTxnsMessage(req, max)
	got := len(m.Transactions)
	vpAssert(got <= n, "result_is_prefix_of_request")
	vpAssert(vpWireLen(m.EncodeSize()) <= max, "encoded_message_fits_limit")
	if got < n {
		bigger := &GetTxnsMessage{Transactions: req[:got+1]}
		vpAssert(vpWireLen(bigger.EncodeSize()) > max, "one_more_item_would_not_fit")
		vpReach("truncated")
	}
}

//vp:prop C23
//vp:bounds 0..3 transactions requested, each with 1..2 inputs and 1..2 outputs (sizes 187..321 bytes); maxMsgLength free 64-bit >= 12
//vp:assume maxMsgLength >= 12: an empty message fits
func vpH_C23_GiveTxns() {
	n := vpLen("n", 0, 3)
	max := vpU64("max")
	vpAssume(max >= 12)
	req := make([]coin.Transaction, n)
	for i := range req {
		req[i] = vpTxnOfShape(vpLen("nIn", 1, 2), vpLen("nOut", 1, 2))
	}
	m := NewGiveTxnsMessage(req, max)
	got := len(m.Transactions)
	vpAssert(got <= n, "result_is_prefix_of_request")
	vpAssert(vpWireLen(m.EncodeSize()) <= max, "encoded_message_fits_limit")
	if got < n {
		bigger := &GiveTxnsMessage{Transactions: req[:got+1]}
		vpAssert(vpWireLen(bigger.EncodeSize()) > max, "one_more_item_would_not_fit")
		vpReach("truncated")
	}
}

//vp:prop C23
//vp:bounds 0..2 blocks (quick) / 0..3 (thorough) requested, each with 0..1 transactions of 1 input and 0..2 outputs; maxMsgLength free 64-bit >= 12
//vp:assume maxMsgLength >= 12: an empty message fits
func vpH_C23_GiveBlocks() {
	maxBlocks := 2
	if vpThorough() {
		maxBlocks = 3
	}
	n := vpLen("n", 0, maxBlocks)
	max := vpU64("max")
	vpAssume(max >= 12)
	req := make([]coin.SignedBlock, n)
	for i := range req {
		k := vpLen("nTxns", 0, 1)
		req[i].Body.Transactions = make(coin.Transactions, k)
		for j := range req[i].Body.Transactions {
			req[i].Body.Transactions[j] = vpTxnOfShape(1, vpLen("nOut", 0, 2))
		}
	}
	m := NewGiveBlocksMessage(req, max)
	got := len(m.Blocks)
	vpAssert(got <= n, "result_is_prefix_of_request")
	vpAssert(vpWireLen(m.EncodeSize()) <= max, "encoded_message_fits_limit")
	if got < n {
		bigger := &GiveBlocksMessage{Blocks: req[:got+1]}
		vpAssert(vpWireLen(bigger.EncodeSize()) > max, "one_more_item_would_not_fit")
		vpReach("truncated")
	}
}

//vp:prop C23
//vp:bounds 0..4 peers requested, each address either parses or not (NewIPAddr abstracted); maxMsgLength free 64-bit >= 12
//vp:assume maxMsgLength >= 12: an empty message fits
//vp:rule github.com/skycoin/skycoin/src/daemon.NewIPAddr uf:newipaddr
//vp:noreplay NewIPAddr (address text parsing) is abstracted by an uninterpreted function
func vpH_C23_GivePeers() {
	n := vpLen("n", 0, 4)
	max := vpU64("max")
	vpAssume(max >= 12)
	req := make([]pex.Peer, n)
	valid := 0
	for i := range req {
		req[i].Addr = vpStr("addr", 4)
		if _, err := NewIPAddr(req[i].Addr); err == nil {
			valid++
		}
	}
	m := NewGivePeersMessage(req, max)
	got := len(m.Peers)
	vpAssert(got <= valid, "result_holds_only_parsable_requested_peers")
	vpAssert(vpWireLen(m.EncodeSize()) <= max, "encoded_message_fits_limit")
	// result is the prefix of the parsable peers, in order
	j := 0
	for i := range req {
		ip, err := NewIPAddr(req[i].Addr)
		if err != nil {
			continue
		}
		if j < got {
			vpAssert(m.Peers[j] == ip, "peers_kept_in_request_order")
		}
		j++
	}
	if got < valid {
		bigger := &GivePeersMessage{Peers: make([]IPAddr, got+1)}
		vpAssert(vpWireLen(bigger.EncodeSize()) > max, "one_more_item_would_not_fit")
		vpReach("truncated")
	}
}

// Item caps: 128 blocks, 256 transactions / hashes, 512 peers.
//
//vp:prop C23
//vp:bounds one request per message kind with cap+1 items and an unlimited length bound
//vp:rule github.com/skycoin/skycoin/src/daemon.NewIPAddr uf:newipaddr:noerr
//vp:noreplay NewIPAddr (address text parsing) is abstracted by an uninterpreted function
func vpH_C23_ItemCaps() {
	const huge = uint64(1) << 40
	vpAssert(len(NewAnnounceTxnsMessage(make([]cipher.SHA256, 257), huge).Transactions) == 256, "announce_capped_at_256")
	vpAssert(len(NewGetTxnsMessage(make([]cipher.SHA256, 257), huge).Transactions) == 256, "get_txns_capped_at_256")
	vpAssert(len(NewGiveTxnsMessage(make([]coin.Transaction, 257), huge).Transactions) == 256, "give_txns_capped_at_256")
	vpAssert(len(NewGiveBlocksMessage(make([]coin.SignedBlock, 129), huge).Blocks) == 128, "give_blocks_capped_at_128")
	vpAssert(len(NewGivePeersMessage(make([]pex.Peer, 513), huge).Peers) == 512, "give_peers_capped_at_512")
}
