package daemon

import (
	"bytes"
	"encoding/binary"

	"github.com/skycoin/skycoin/src/cipher"
	"github.com/skycoin/skycoin/src/cipher/encoder"
	"github.com/skycoin/skycoin/src/coin"
)

// C21 — generated codecs of the wire messages: exact decoding is canonical,
// sizes agree, no decoder panics, maximum lengths are enforced as tagged.

//vp:prop C21
//vp:bounds per codec, byte strings of every length 0..N with free content: IPAddr N=8, AnnounceBlocks 10, GetBlocks 18, Disconnect 12, AnnounceTxns 38, GetTxns 38, GivePeers 18, Introduction 22
//vp:maxvalues 64
//vp:unwind 64
func vpH_C21_DaemonCodecsCanonical() {
	limits := [8]int{8, 10, 18, 12, 38, 38, 18, 22}
	k := vpLen("codec", 0, 7)
	n := vpLen("bufLen", 0, limits[k])
	buf := vpBytes("buf", n)
	var out []byte
	var err, err2 error
	var size uint64
	switch k {
	case 0:
		var o IPAddr
		if err = decodeIPAddrExact(buf, &o); err == nil {
			out, err2 = encodeIPAddr(&o)
			size = encodeSizeIPAddr(&o)
		}
	case 1:
		var o AnnounceBlocksMessage
		if err = decodeAnnounceBlocksMessageExact(buf, &o); err == nil {
			out, err2 = encodeAnnounceBlocksMessage(&o)
			size = encodeSizeAnnounceBlocksMessage(&o)
		}
	case 2:
		var o GetBlocksMessage
		if err = decodeGetBlocksMessageExact(buf, &o); err == nil {
			out, err2 = encodeGetBlocksMessage(&o)
			size = encodeSizeGetBlocksMessage(&o)
		}
	case 3:
		var o DisconnectMessage
		if err = decodeDisconnectMessageExact(buf, &o); err == nil {
			out, err2 = encodeDisconnectMessage(&o)
			size = encodeSizeDisconnectMessage(&o)
		}
	case 4:
		var o AnnounceTxnsMessage
		if err = decodeAnnounceTxnsMessageExact(buf, &o); err == nil {
			out, err2 = encodeAnnounceTxnsMessage(&o)
			size = encodeSizeAnnounceTxnsMessage(&o)
		}
	case 5:
		var o GetTxnsMessage
		if err = decodeGetTxnsMessageExact(buf, &o); err == nil {
			out, err2 = encodeGetTxnsMessage(&o)
			size = encodeSizeGetTxnsMessage(&o)
		}
	case 6:
		var o GivePeersMessage
		if err = decodeGivePeersMessageExact(buf, &o); err == nil {
			out, err2 = encodeGivePeersMessage(&o)
			size = encodeSizeGivePeersMessage(&o)
		}
	case 7:
		var o IntroductionMessage
		if err = decodeIntroductionMessageExact(buf, &o); err == nil {
			out, err2 = encodeIntroductionMessage(&o)
			size = encodeSizeIntroductionMessage(&o)
		}
	}
	if err != nil {
		vpReach("rejected")
		return
	}
	vpReach("decoded")
	vpAssert(err2 == nil, "decoded_value_encodes")
	vpAssert(size == uint64(len(out)), "encode_size_is_length_of_encoding")
	if k == 7 && n == 14 && len(out) == 10 {
		// an explicit zero length for the trailing omitempty field: see KNOWN_FINDINGS
		vpAssert(bytes.Equal(out, buf), "reencoding_gives_the_same_bytes_explicit_empty_omitempty_field")
		return
	}
	vpAssert(bytes.Equal(out, buf), "reencoding_gives_the_same_bytes")
}

// Maximum-length enforcement: a length prefix equal to the tagged maximum is
// accepted (given enough data), one more is refused with ErrMaxLenExceeded, by
// decoder and encoder alike.
//
//vp:prop C21
//vp:bounds for the five length-limited wire messages (peers 512, hashes 256/256, transactions 256, blocks 128): length prefix free within max-1..max+1 over a sufficiently long zero body, and over a body of 8 bytes (underflow expected)
//vp:maxvalues 8
//vp:unwind 600
func vpH_C21_MaxLenEnforced() {
	k := vpLen("codec", 0, 4)
	max := [5]int{512, 256, 256, 256, 128}[k]
	elem := [5]int{6, 32, 32, int(encodeSizeTransaction(&coin.Transaction{})), int(encodeSizeSignedBlock(&coin.SignedBlock{}))}[k] // encoded size of a zero element
	count := vpU32("count")
	vpAssume(count >= uint32(max-1) && count <= uint32(max+1))
	buf := make([]byte, 4+(max+1)*elem)
	binary.LittleEndian.PutUint32(buf, count)
	var n uint64
	var err error
	got := 0
	switch k {
	case 0:
		var o GivePeersMessage
		n, err = decodeGivePeersMessage(buf, &o)
		got = len(o.Peers)
	case 1:
		var o AnnounceTxnsMessage
		n, err = decodeAnnounceTxnsMessage(buf, &o)
		got = len(o.Transactions)
	case 2:
		var o GetTxnsMessage
		n, err = decodeGetTxnsMessage(buf, &o)
		got = len(o.Transactions)
	case 3:
		var o GiveTxnsMessage
		n, err = decodeGiveTxnsMessage(buf, &o)
		got = len(o.Transactions)
	case 4:
		var o GiveBlocksMessage
		n, err = decodeGiveBlocksMessage(buf, &o)
		got = len(o.Blocks)
	}
	if count <= uint32(max) {
		vpAssert(err == nil, "length_up_to_the_tagged_maximum_decodes")
		vpAssert(uint32(got) == count && n == uint64(4+int(count)*elem), "all_elements_decoded")
	} else {
		vpAssert(err == encoder.ErrMaxLenExceeded, "length_above_the_tagged_maximum_is_refused")
	}
	// a length prefix that exceeds the bytes that follow is a buffer underflow,
	// whether or not it also exceeds the tagged maximum (the reference decoder's order)
	short := buf[:12] // 8 bytes follow the prefix: fewer than any length in max-1..max+1 (the decoders compare the element count with the remaining bytes)
	var serr error
	switch k {
	case 0:
		var o GivePeersMessage
		_, serr = decodeGivePeersMessage(short, &o)
	case 1:
		var o AnnounceTxnsMessage
		_, serr = decodeAnnounceTxnsMessage(short, &o)
	case 2:
		var o GetTxnsMessage
		_, serr = decodeGetTxnsMessage(short, &o)
	case 3:
		var o GiveTxnsMessage
		_, serr = decodeGiveTxnsMessage(short, &o)
	case 4:
		var o GiveBlocksMessage
		_, serr = decodeGiveBlocksMessage(short, &o)
	}
	vpAssert(serr == encoder.ErrBufferUnderflow, "length_beyond_the_buffer_is_an_underflow_before_anything_else")
	// encoder side
	var eerr error
	switch k {
	case 0:
		_, eerr = encodeGivePeersMessage(&GivePeersMessage{Peers: make([]IPAddr, count)})
	case 1:
		_, eerr = encodeAnnounceTxnsMessage(&AnnounceTxnsMessage{Transactions: make([]cipher.SHA256, count)})
	case 2:
		_, eerr = encodeGetTxnsMessage(&GetTxnsMessage{Transactions: make([]cipher.SHA256, count)})
	case 3:
		_, eerr = encodeGiveTxnsMessage(&GiveTxnsMessage{Transactions: make([]coin.Transaction, count)})
	case 4:
		_, eerr = encodeGiveBlocksMessage(&GiveBlocksMessage{Blocks: make([]coin.SignedBlock, count)})
	}
	if count <= uint32(max) {
		vpAssert(eerr == nil, "encoder_accepts_up_to_the_tagged_maximum")
	} else {
		vpAssert(eerr == encoder.ErrMaxLenExceeded, "encoder_refuses_above_the_tagged_maximum")
	}
}
