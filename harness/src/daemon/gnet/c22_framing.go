package gnet

import (
	"bytes"
	"encoding/binary"
)

// C22-H1 — length-prefix framing is independent of how the byte stream is
// split into reads. The harness mirrors readLoop's body (Buffer.Write(chunk);
// decodeData) and compares with a one-shot reference parse of the whole stream.

//vp:prop C22
//vp:bounds stream of 0..13 (quick) / 0..17 (thorough) free bytes, every split into <= 3 reads, maxMsgLength free in [4, 2^31); the connection buffer fresh or created with capacity 8 / 12 (standing for a long-lived buffer whose spare capacity is used up, so that it recycles space); frame lengths are therefore <= 13 / 17 bytes
//vp:unwind 40
//vp:maxvalues 20
func vpH_C22_FramingChunks() {
	maxL := 13
	if vpThorough() {
		maxL = 17
	}
	L := vpLen("L", 0, maxL)
	s := vpBytes("stream", L)
	max := vpInt("max")
	vpAssume(max >= 4 && max < 1<<31)
	c1 := vpLen("cut1", 0, L)
	c2 := vpLen("cut2", c1, L)
	chunks := [][]byte{s[:c1], s[c1:c2], s[c2:]}

	// the connection buffer: fresh, or with little spare capacity (the state a
	// long-lived connection is in once the buffer has to recycle or slide its space)
	buf := &bytes.Buffer{}
	if k := vpLen("bufferCapacity", 0, 2); k > 0 {
		buf = bytes.NewBuffer(make([]byte, 0, 4+4*k))
	}
	var delivered [][]byte
	var gotErr error
	fed := 0
	errFed := -1
	for _, ch := range chunks {
		if len(ch) == 0 {
			continue // readLoop never hands an empty read to the buffer
		}
		fed += len(ch)
		_, werr := buf.Write(ch)
		vpAssert(werr == nil, "buffer_write_never_fails")
		datas, err := decodeData(buf, max)
		if err != nil {
			gotErr = err
			errFed = fed
			break
		}
		delivered = append(delivered, datas...)
	}

	// reference: sequential parse of the whole stream
	var frames [][]byte
	pos := 0
	badAt := -1 // offset of the first frame whose length prefix is invalid and examined
	for L-pos > 4 {
		n := int(binary.LittleEndian.Uint32(s[pos : pos+4]))
		if n < 4 || n > max {
			badAt = pos
			break
		}
		if L-pos-4 < n {
			break
		}
		frames = append(frames, s[pos+4:pos+4+n])
		pos += 4 + n
	}

	if badAt < 0 {
		vpAssert(gotErr == nil, "well_formed_stream_never_disconnects")
		vpAssert(len(delivered) == len(frames), "every_complete_frame_delivered_exactly_once")
		for i := range frames {
			if i < len(delivered) {
				vpAssert(bytes.Equal(delivered[i], frames[i]), "frames_delivered_in_order_with_exact_content")
			}
		}
		vpAssert(buf.Len() == L-pos, "incomplete_tail_stays_buffered")
		vpReach("well-formed")
	} else {
		vpAssert(gotErr == ErrDisconnectInvalidMessageLength, "invalid_length_prefix_disconnects")
		// reported in the read in which the 5th byte of the bad frame arrived
		vpAssert(errFed >= badAt+5, "not_reported_before_the_prefix_is_examinable")
		vpAssert(len(delivered) <= len(frames), "nothing_but_earlier_frames_delivered")
		for i := range delivered {
			if i < len(frames) {
				vpAssert(bytes.Equal(delivered[i], frames[i]), "frames_before_the_bad_prefix_in_order")
			}
		}
		vpReach("bad-prefix")
	}
}
