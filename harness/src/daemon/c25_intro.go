package daemon

import (
	"encoding/binary"

	"github.com/skycoin/skycoin/src/cipher/encoder"
	"github.com/skycoin/skycoin/src/daemon/gnet"
	"github.com/skycoin/skycoin/src/params"
	"github.com/skycoin/skycoin/src/util/useragent"
)

// C25-H1 — IntroductionMessage.Verify: accepted only with a foreign mirror, a
// supported version, this network's blockchain public key, valid verification
// parameters and a parsable user agent; no Extra makes it panic.

// Contract of encoder.DeserializeRawExact for *params.VerifyTxn (9 bytes:
// uint32 burn factor, uint32 max size, uint8 precision, little endian; exact length).
func vpModelDeserializeVerifyTxn(in []byte, data interface{}) error {
	v := data.(*params.VerifyTxn)
	if len(in) < 9 {
		return encoder.ErrBufferUnderflow
	}
	if len(in) > 9 {
		return encoder.ErrRemainingBytes
	}
	v.BurnFactor = binary.LittleEndian.Uint32(in[0:4])
	v.MaxTransactionSize = binary.LittleEndian.Uint32(in[4:8])
	v.MaxDropletPrecision = in[8]
	return nil
}

// Contract of encoder.DeserializeString: uint32 length prefix then the bytes.
func vpModelDeserializeString(in []byte, maxlen int) (string, uint64, error) {
	if len(in) < 4 {
		return "", 0, encoder.ErrBufferUnderflow
	}
	n := int(binary.LittleEndian.Uint32(in[0:4]))
	if n < 0 || n > len(in)-4 {
		return "", 0, encoder.ErrBufferUnderflow
	}
	if maxlen > 0 && n > maxlen {
		return "", 0, encoder.ErrMaxLenExceeded
	}
	return string(in[4 : 4+n]), uint64(4 + n), nil
}

// useragent.Parse (regular expressions): accepts or rejects, deterministically per text.
func vpModelUserAgentParse(s string) (useragent.Data, error) {
	if vpBool("useragent.valid") {
		return useragent.Data{Coin: "c", Version: "1.0.0"}, nil
	}
	return useragent.Data{}, useragent.ErrMalformed
}

func vpModelSanitize(s string) string { return s }

//vp:prop C25
//vp:bounds Extra of every length 0..50 and lengths 75, 76, 77, 78, 110 with free bytes (33-byte key, 9 parameter bytes, user-agent length prefix and text, optional 32-byte genesis hash); mirror, versions, our key free
//vp:assume the reflection decoder's results for the 9 parameter bytes and the length-prefixed string follow its documented format (C21 covers the decoder itself); user-agent parsing (regular expressions) is an arbitrary verdict
//vp:rule github.com/skycoin/skycoin/src/cipher/encoder.DeserializeRawExact model:vpModelDeserializeVerifyTxn
//vp:rule github.com/skycoin/skycoin/src/cipher/encoder.DeserializeString model:vpModelDeserializeString
//vp:rule github.com/skycoin/skycoin/src/util/useragent.Parse model:vpModelUserAgentParse
//vp:rule github.com/skycoin/skycoin/src/util/useragent.Sanitize model:vpModelSanitize
//vp:noreplay decoder and user-agent parser are summarised
//vp:maxvalues 130
//vp:unwind 130
func vpH_C25_IntroVerify() {
	lens := [5]int{75, 76, 77, 78, 110}
	idx := vpLen("extraLenIdx", 0, 55)
	n := idx
	if idx > 50 {
		n = lens[idx-51]
	}
	var dc DaemonConfig
	dc.Mirror = vpU32("ourMirror")
	dc.MinProtocolVersion = int32(vpU32("minVersion"))
	vpFill("ourPubkey", &dc.BlockchainPubkey)
	intro := &IntroductionMessage{}
	intro.Mirror = vpU32("mirror")
	intro.ProtocolVersion = int32(vpU32("version"))
	intro.Extra = vpBytes("extra", n)

	err := intro.Verify(dc, nil)

	if err == nil {
		vpReach("accepted")
		vpAssert(intro.Mirror != dc.Mirror, "accepted_introduction_is_not_a_self_connection")
		vpAssert(intro.ProtocolVersion >= dc.MinProtocolVersion, "accepted_introduction_has_supported_version")
		vpAssert(n >= 33+9+4, "accepted_introduction_carries_key_parameters_and_user_agent")
		if n >= 42 {
			same := true
			for i := 0; i < 33; i++ {
				if intro.Extra[i] != dc.BlockchainPubkey[i] {
					same = false
				}
			}
			vpAssert(same, "accepted_introduction_carries_this_networks_blockchain_key")
			burn := binary.LittleEndian.Uint32(intro.Extra[33:37])
			size := binary.LittleEndian.Uint32(intro.Extra[37:41])
			vpAssert(burn >= 2 && size >= 1024 && intro.Extra[41] <= 6, "accepted_introduction_has_valid_verification_parameters")
			vpAssert(intro.UnconfirmedVerifyTxn.BurnFactor == burn && intro.UnconfirmedVerifyTxn.MaxTransactionSize == size, "parameters_recorded_as_sent")
		}
	} else {
		vpReach("rejected")
		if intro.Mirror == dc.Mirror {
			vpAssert(err == ErrDisconnectSelf, "self_connection_reported_as_such")
		}
	}
}

// ---- C25-H2: the introduction gate in front of message processing -------------

var vpProcessed, vpDisconnected int
var vpDisconnectReason error

type vpProbeMessage struct{}

func (vpProbeMessage) process(d daemoner) { vpProcessed++ }

func vpModelIntroProcess(m *IntroductionMessage, d daemoner)    { vpProcessed++ }
func vpModelDiscProcess(m *DisconnectMessage, d daemoner)       { vpProcessed++ }
func vpModelGivePeersProcess(m *GivePeersMessage, d daemoner)   { vpProcessed++ }
func vpModelGetBlocksProcess(m *GetBlocksMessage, d daemoner)   { vpProcessed++ }
func vpModelGiveBlocksProcess(m *GiveBlocksMessage, d daemoner) { vpProcessed++ }
func vpModelAnnTxnsProcess(m *AnnounceTxnsMessage, d daemoner)  { vpProcessed++ }
func vpModelGetPeersProcess(m *GetPeersMessage, d daemoner)     { vpProcessed++ }
func vpModelPingProcess(m *PingMessage, d daemoner)             { vpProcessed++ }
func vpModelAnnBlocksProcess(m *AnnounceBlocksMessage, d daemoner) {
	vpProcessed++
}
func vpModelGetTxnsProcess(m *GetTxnsMessage, d daemoner)   { vpProcessed++ }
func vpModelGiveTxnsProcess(m *GiveTxnsMessage, d daemoner) { vpProcessed++ }
func vpModelDisconnect(dm *Daemon, addr string, r error) error {
	vpDisconnected++
	vpDisconnectReason = r
	return nil
}

//vp:prop C25
//vp:bounds one connection in each state (pending, connected, introduced); one message of each of the 11 processed wire message types and a probe of another type; matching or foreign connection id; known or unknown address
//vp:assume message handlers and Daemon.Disconnect are replaced by recorders (the gate, not the handlers, is the subject)
//vp:rule (*github.com/skycoin/skycoin/src/daemon.IntroductionMessage).process model:vpModelIntroProcess
//vp:rule (*github.com/skycoin/skycoin/src/daemon.DisconnectMessage).process model:vpModelDiscProcess
//vp:rule (*github.com/skycoin/skycoin/src/daemon.GivePeersMessage).process model:vpModelGivePeersProcess
//vp:rule (*github.com/skycoin/skycoin/src/daemon.GetBlocksMessage).process model:vpModelGetBlocksProcess
//vp:rule (*github.com/skycoin/skycoin/src/daemon.GiveBlocksMessage).process model:vpModelGiveBlocksProcess
//vp:rule (*github.com/skycoin/skycoin/src/daemon.AnnounceTxnsMessage).process model:vpModelAnnTxnsProcess
//vp:rule (*github.com/skycoin/skycoin/src/daemon.GetPeersMessage).process model:vpModelGetPeersProcess
//vp:rule (*github.com/skycoin/skycoin/src/daemon.PingMessage).process model:vpModelPingProcess
//vp:rule (*github.com/skycoin/skycoin/src/daemon.AnnounceBlocksMessage).process model:vpModelAnnBlocksProcess
//vp:rule (*github.com/skycoin/skycoin/src/daemon.GetTxnsMessage).process model:vpModelGetTxnsProcess
//vp:rule (*github.com/skycoin/skycoin/src/daemon.GiveTxnsMessage).process model:vpModelGiveTxnsProcess
//vp:rule (*github.com/skycoin/skycoin/src/daemon.Daemon).Disconnect model:vpModelDisconnect
//vp:noreplay handlers are recorders
func vpH_C25_IntroGate() {
	vpProcessed, vpDisconnected, vpDisconnectReason = 0, 0, nil
	dm := &Daemon{connections: NewConnections()}
	const addr = "1.1.1.1:6000"
	state := vpLen("state", 0, 3) // 0 unknown address, 1 pending, 2 connected, 3 introduced
	id := vpU64("gnetID")
	vpAssume(id != 0)
	if state == 1 {
		_, err := dm.connections.pending(addr)
		vpAssume(err == nil)
	}
	if state >= 2 {
		_, err := dm.connections.connected(addr, id)
		vpAssume(err == nil)
	}
	if state == 3 {
		_, err := dm.connections.introduced(addr, id, &IntroductionMessage{Mirror: vpU32("mirror"), ListenPort: 7000})
		vpAssume(err == nil)
	}
	var msg asyncMessage
	kind := vpLen("messageKind", 0, 12)
	switch kind {
	case 0:
		msg = &IntroductionMessage{}
	case 1:
		msg = &DisconnectMessage{}
	case 2:
		msg = &GivePeersMessage{}
	case 3:
		msg = &GetBlocksMessage{}
	case 4:
		msg = &GiveBlocksMessage{}
	case 5:
		msg = &AnnounceTxnsMessage{}
	case 6:
		msg = &GetPeersMessage{}
	case 7:
		msg = &PingMessage{}
	case 8, 9:
		msg = &AnnounceBlocksMessage{}
	case 10:
		msg = &GetTxnsMessage{}
	case 11:
		msg = &GiveTxnsMessage{}
	default:
		msg = vpProbeMessage{}
	}
	ctxID := id
	if state == 1 {
		ctxID = 0 // a pending connection has no connection id yet
	}
	if vpBool("foreignConnID") {
		ctxID = vpU64("otherID")
		vpAssume(ctxID != id && !(state == 1 && ctxID == 0))
	}
	dm.onMessageEvent(messageEvent{Message: msg, Context: &gnet.MessageContext{ConnID: ctxID, Addr: addr}})

	current := state != 0 && ((state == 1 && ctxID == 0) || (state >= 2 && ctxID == id))
	allowedEarly := kind <= 2
	if !current {
		vpAssert(vpProcessed == 0 && vpDisconnected == 0, "message_for_unknown_or_replaced_connection_is_dropped")
	} else if state == 3 || allowedEarly {
		vpAssert(vpProcessed == 1 && vpDisconnected == 0, "introduced_or_early_allowed_message_is_processed")
	} else {
		vpAssert(vpProcessed == 0, "protocol_message_before_introduction_is_not_processed")
		vpAssert(vpDisconnected == 1 && vpDisconnectReason == ErrDisconnectNoIntroduction, "protocol_message_before_introduction_disconnects")
	}
}
