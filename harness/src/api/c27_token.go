package api

import (
	"bytes"
	"errors"
	"hash"
	"time"
)

// C27-H5 — the request token check itself: a token is accepted only if its
// signature part is the complete MAC of its payload part under this node's key
// and it has not expired.

type vpMac struct {
	key, data []byte
}

func (m *vpMac) Write(p []byte) (int, error) { m.data = append(m.data, p...); return len(p), nil }
func (m *vpMac) Sum(b []byte) []byte          { return append(b, vpUFBytes("hmac-sha256", 32, m.key, m.data)...) }
func (m *vpMac) Reset()                       { m.data = nil }
func (m *vpMac) Size() int                    { return 32 }
func (m *vpMac) BlockSize() int               { return 64 }

func vpModelHmacNew(h func() hash.Hash, key []byte) hash.Hash { return &vpMac{key: append([]byte{}, key...)} }

// base64url text is a bijection between byte strings and texts over its
// alphabet: represented by the identity embedding
func vpModelB64Encode(enc interface{}, b []byte) string { return string(b) }
func vpModelB64Decode(enc interface{}, s string) ([]byte, error) {
	return []byte(s), nil
}

var vpTokenNow, vpTokenExpiry int64
var vpTokenJSONOK bool

func vpModelTokenNow() time.Time { return time.Unix(vpTokenNow, 0) }

// JSON decoding of the payload: fails or yields an arbitrary expiry time
func vpModelTokenUnmarshal(data []byte, v interface{}) error {
	if !vpTokenJSONOK {
		return errors.New("vp: malformed payload")
	}
	v.(*CSRFToken).ExpiresAt = time.Unix(vpTokenExpiry, 0)
	return nil
}

//vp:prop C27
//vp:bounds token = payload of 0..3 free bytes, a dot, signature part of 0, 1, 31, 32 or 33 free bytes (none of them a dot); tokens with no dot or two dots; node key of 4 free bytes; clock and expiry free within years 1970..2100; payload decodes or not
//vp:assume HMAC-SHA256 is an uninterpreted function of (key, message); base64url text is the identity embedding; JSON decoding of the payload yields an arbitrary expiry or fails
//vp:rule crypto/hmac.New model:vpModelHmacNew
//vp:rule (*encoding/base64.Encoding).EncodeToString model:vpModelB64Encode
//vp:rule (*encoding/base64.Encoding).DecodeString model:vpModelB64Decode
//vp:rule encoding/json.Unmarshal model:vpModelTokenUnmarshal
//vp:rule time.Now model:vpModelTokenNow
//vp:noreplay the MAC is uninterpreted
func vpH_C27_TokenVerify() {
	csrfSecretKey = vpBytes("nodeKey", 4)
	vpTokenNow, vpTokenExpiry = int64(vpU32("now")), int64(vpU32("expiry"))
	vpTokenJSONOK = vpBool("payloadDecodes")
	payload := vpBytes("payload", vpLen("payloadLen", 0, 3))
	sig := vpBytes("signature", [5]int{0, 1, 31, 32, 33}[vpLen("sigLenIdx", 0, 4)])
	for _, c := range payload {
		vpAssume(c != '.')
	}
	for _, c := range sig {
		vpAssume(c != '.')
	}
	dots := vpLen("dots", 0, 2)
	var token string
	switch dots {
	case 0:
		token = string(payload) + string(sig)
	case 1:
		token = string(payload) + "." + string(sig)
	default:
		token = string(payload) + "." + string(sig) + "."
	}
	err := verifyCSRFToken(token)

	mac := vpUFBytes("hmac-sha256", 32, csrfSecretKey, payload)
	sigOK := len(sig) == 32 && bytes.Equal(sig, mac)
	valid := dots == 1 && sigOK && vpTokenJSONOK && vpTokenNow <= vpTokenExpiry
	if err == nil {
		vpAssert(valid, "accepted_token_carries_the_complete_mac_and_is_unexpired")
		vpReach("accepted")
	} else {
		vpAssert(!valid, "genuine_unexpired_token_is_accepted")
		vpReach("refused")
	}
}
