package api

import (
	"net/http"
	"net/url"

	"github.com/rs/cors"
	"github.com/sirupsen/logrus"
)

// C27 — access-control kernels of the HTTP API: a request reaches the wrapped
// handler only under the documented conditions.

var (
	vpReached    int
	vpStatus     int
	vpHeaders    map[string]string
	vpAuthUser   string
	vpAuthPass   string
	vpAuthOK     bool
	vpCSRFResult error
	vpURLHost    string
	vpURLErr     error
)

func vpInner() http.Handler {
	return http.HandlerFunc(func(w http.ResponseWriter, r *http.Request) { vpReached++ })
}

func vpModelWriteError(w http.ResponseWriter, apiVersion string, code int, msg string) { vpStatus = code }
func vpModelWriteHTTPResponse(w http.ResponseWriter, resp HTTPResponse) {
	if resp.Error != nil {
		vpStatus = resp.Error.Code
	}
}
func vpModelHeaderGet(h http.Header, key string) string { return vpHeaders[key] }
func vpModelBasicAuth(r *http.Request) (string, string, bool) {
	return vpAuthUser, vpAuthPass, vpAuthOK
}
func vpModelVerifyCSRF(token string) error { return vpCSRFResult }
func vpModelURLParse(raw string) (*url.URL, error) {
	if vpURLErr != nil {
		return nil, vpURLErr
	}
	return &url.URL{Host: vpURLHost}, nil
}

func vpModelIsLocalhost(addr string) bool {
	return addr == "127.0.0.1" || addr == "localhost" || addr == "::1"
}

type vpNullWriter struct{ http.ResponseWriter }

func (vpNullWriter) Header() http.Header { return http.Header{} }

func vpResetHTTP() {
	vpReached, vpStatus = 0, 0
	vpHeaders = map[string]string{}
	vpAuthUser, vpAuthPass, vpAuthOK = "", "", false
	vpCSRFResult, vpURLHost, vpURLErr = nil, "", nil
}

//vp:prop C27
//vp:bounds configured username and password of 0..2 free bytes each; presented credentials absent or 0..2 free bytes each
//vp:assume SHA256 collision free; Request.BasicAuth yields arbitrary (user, password, present) values; response writing is a recorder
//vp:rule github.com/skycoin/skycoin/src/api.writeError model:vpModelWriteError
//vp:rule (*net/http.Request).BasicAuth model:vpModelBasicAuth
//vp:noreplay the HTTP layer is a model
func vpH_C27_BasicAuth() {
	vpResetHTTP()
	username := vpStr("username", vpLen("usernameLen", 0, 2))
	password := vpStr("password", vpLen("passwordLen", 0, 2))
	vpAuthOK = vpBool("credentialsPresented")
	if vpAuthOK {
		vpAuthUser = vpStr("user", vpLen("userLen", 0, 2))
		vpAuthPass = vpStr("pass", vpLen("passLen", 0, 2))
	}
	h := basicAuth(apiVersion1, username, password, "realm", vpInner())
	h.ServeHTTP(vpNullWriter{}, &http.Request{})
	configured := username != "" || password != ""
	var allowed bool
	if configured {
		allowed = vpAuthOK && vpAuthUser == username && vpAuthPass == password
	} else {
		allowed = vpAuthUser == "" && vpAuthPass == ""
	}
	if vpReached > 0 {
		vpAssert(allowed, "reaches_the_endpoint_only_with_exactly_the_configured_username_and_password")
		vpReach("allowed")
	} else {
		vpAssert(!allowed, "configured_credentials_are_accepted")
		vpAssert(vpStatus == http.StatusUnauthorized, "refused_with_401")
		vpReach("refused")
	}
}

//vp:prop C27
//vp:bounds configured host 127.0.0.1:6420 with whitelist {w.x}, or public host 1.2.3.4:6420; request Host one of: empty, the two local forms, the whitelisted name, a rebinding name, the local address with another port; Origin / Referer absent, whitelisted, foreign or unparsable
//vp:assume url.Parse yields an arbitrary host or an error; header access and response writing are recorders
//vp:rule github.com/skycoin/skycoin/src/api.writeError model:vpModelWriteError
//vp:rule (net/http.Header).Get model:vpModelHeaderGet
//vp:rule net/url.Parse model:vpModelURLParse
//vp:rule github.com/skycoin/skycoin/src/util/iputil.IsLocalhost model:vpModelIsLocalhost
//vp:noreplay the HTTP layer is a model
func vpH_C27_HostAndOriginChecks() {
	vpResetHTTP()
	local := vpBool("configuredLocalhost")
	host := "1.2.3.4:6420"
	if local {
		host = "127.0.0.1:6420"
	}
	hosts := [6]string{"", "127.0.0.1:6420", "localhost:6420", "w.x", "evil.example.com:6420", "127.0.0.1:9999"}
	reqHost := hosts[vpLen("requestHost", 0, 5)]
	h := hostCheck(apiVersion1, host, []string{"w.x"}, vpInner())
	h.ServeHTTP(vpNullWriter{}, &http.Request{Host: reqHost})
	okHost := !local || reqHost == "" || reqHost == "127.0.0.1:6420" || reqHost == "localhost:6420" || reqHost == "w.x"
	vpAssert((vpReached == 1) == okHost, "host_check_admits_exactly_acceptable_hosts")
	if !okHost {
		vpAssert(vpStatus == http.StatusForbidden, "unacceptable_host_refused_with_403")
	}

	// Origin / Referer
	vpReached, vpStatus = 0, 0
	origins := [5]string{"", "http://ok", "http://foreign", "::bad", "null"} // "null": parses, but has no host
	oi, ri := vpLen("origin", 0, 4), vpLen("referer", 0, 4)
	vpHeaders["Origin"], vpHeaders["Referer"] = origins[oi], origins[ri]
	used := oi
	if oi == 0 {
		used = ri
	}
	switch used {
	case 1:
		if local {
			vpURLHost = [3]string{"127.0.0.1:6420", "localhost:6420", "w.x"}[vpLen("okHost", 0, 2)]
		} else {
			vpURLHost = [2]string{"1.2.3.4:6420", "w.x"}[vpLen("okHost", 0, 1)]
		}
	case 2:
		vpURLHost = "evil.example.com"
	case 3:
		vpURLErr = ErrCSRFInvalid
	case 4:
		vpURLHost = ""
	}
	h2 := originRefererCheck(apiVersion1, host, []string{"w.x"}, vpInner())
	h2.ServeHTTP(vpNullWriter{}, &http.Request{Header: http.Header{}})
	okOrigin := used == 0 || used == 1
	vpAssert((vpReached == 1) == okOrigin, "origin_referer_check_admits_exactly_absent_or_acceptable_origins")
	if !okOrigin {
		vpAssert(vpStatus == http.StatusForbidden, "unacceptable_origin_refused_with_403")
	}
}

//vp:prop C27
//vp:bounds every HTTP method of {GET, HEAD, POST, PUT, DELETE, PATCH}; token checking on or off; token verdict valid / invalid
//vp:assume token verification (HMAC, base64, JSON, clock) is an arbitrary verdict; header access and response writing are recorders
//vp:rule github.com/skycoin/skycoin/src/api.writeError model:vpModelWriteError
//vp:rule github.com/skycoin/skycoin/src/api.writeHTTPResponse model:vpModelWriteHTTPResponse
//vp:rule github.com/skycoin/skycoin/src/api.verifyCSRFToken model:vpModelVerifyCSRF
//vp:rule (net/http.Header).Get model:vpModelHeaderGet
//vp:noreplay the HTTP layer is a model
func vpH_C27_CSRFAndContentType() {
	vpResetHTTP()
	method := [6]string{"GET", "HEAD", "POST", "PUT", "DELETE", "PATCH"}[vpLen("method", 0, 5)]
	disabled := vpBool("tokenCheckDisabled")
	if vpBool("tokenInvalid") {
		vpCSRFResult = ErrCSRFInvalidSignature
	}
	h := CSRFCheck(apiVersion1, disabled, vpInner())
	h.ServeHTTP(vpNullWriter{}, &http.Request{Method: method, Header: http.Header{}})
	changing := method == "POST" || method == "PUT" || method == "DELETE"
	ok := disabled || !changing || vpCSRFResult == nil
	vpAssert((vpReached == 1) == ok, "state_changing_request_needs_a_valid_token_when_checking_is_on")
	if !ok {
		vpAssert(vpStatus == http.StatusForbidden, "missing_or_invalid_token_refused_with_403")
	}

	vpReached, vpStatus = 0, 0
	ct := [4]string{"", "application/json", "application/json; charset=utf-8", "text/plain"}[vpLen("contentType", 0, 3)]
	vpHeaders["Content-Type"] = ct
	h2 := ContentTypeJSONRequired(vpInner())
	h2.ServeHTTP(vpNullWriter{}, &http.Request{Method: method, Header: http.Header{}})
	okCT := method != "POST" || ct == "application/json" || ct == "application/json; charset=utf-8"
	vpAssert((vpReached == 1) == okCT, "post_requires_a_json_content_type")
	if !okCT {
		vpAssert(vpStatus == http.StatusUnsupportedMediaType, "wrong_content_type_refused_with_415")
	}
}

// ---- C27-H2: the route table -----------------------------------------------------

type vpRoute struct {
	pattern string
	handler http.Handler
}

var vpRoutes []vpRoute

func vpModelMuxHandle(mux *http.ServeMux, pattern string, handler http.Handler) {
	vpRoutes = append(vpRoutes, vpRoute{pattern, handler})
}

// the endpoint logic behind the access-control chain is replaced by a probe
func vpModelElapsedHandler(logger logrus.FieldLogger, h http.Handler) http.Handler { return vpInner() }
func vpModelGzipNew(h http.Handler) http.Handler                                 { return h }
func vpModelCorsNew(o cors.Options) *cors.Cors                                   { return &cors.Cors{} }
func vpModelCorsHandler(c *cors.Cors, h http.Handler) http.Handler               { return h }

//vp:prop C27
//vp:bounds every route registered by newServerMux (GUI off); per route three probes: a DNS-rebinding Host, a POST without a valid token, wrong credentials; header check and token check each enabled or disabled
//vp:assume the endpoint logic (and the per-method API-set filter wrapped around it) is replaced by a probe; CORS, gzip and timing wrappers are transparent; kernels as in the other C27 harnesses
//vp:rule (*net/http.ServeMux).Handle model:vpModelMuxHandle
//vp:rule github.com/skycoin/skycoin/src/util/http.ElapsedHandler model:vpModelElapsedHandler
//vp:rule github.com/skycoin/skycoin/src/util/gziphandler.New model:vpModelGzipNew
//vp:rule github.com/rs/cors.New model:vpModelCorsNew
//vp:rule (*github.com/rs/cors.Cors).Handler model:vpModelCorsHandler
//vp:rule github.com/skycoin/skycoin/src/api.writeError model:vpModelWriteError
//vp:rule github.com/skycoin/skycoin/src/api.writeHTTPResponse model:vpModelWriteHTTPResponse
//vp:rule github.com/skycoin/skycoin/src/api.verifyCSRFToken model:vpModelVerifyCSRF
//vp:rule (net/http.Header).Get model:vpModelHeaderGet
//vp:rule (*net/http.Request).BasicAuth model:vpModelBasicAuth
//vp:rule net/url.Parse model:vpModelURLParse
//vp:rule github.com/skycoin/skycoin/src/util/iputil.IsLocalhost model:vpModelIsLocalhost
//vp:noreplay the HTTP layer is a model
//vp:unwind 400
func vpH_C27_RouteTable() {
	vpRoutes = nil
	c := muxConfig{host: "127.0.0.1:6420", username: "u", password: "p", enabledAPISets: map[string]struct{}{}}
	c.disableHeaderCheck = vpBool("headerCheckDisabled")
	c.disableCSRF = vpBool("tokenCheckDisabled")
	newServerMux(c, nil)
	vpAssert(len(vpRoutes) > 40, "routes_registered")
	for _, rt := range vpRoutes {
		// (a) acceptable request with the right credentials reaches the endpoint
		vpResetHTTP()
		vpAuthUser, vpAuthPass, vpAuthOK = "u", "p", true
		vpHeaders["Content-Type"] = "application/json"
		rt.handler.ServeHTTP(vpNullWriter{}, &http.Request{Method: "GET", Host: "127.0.0.1:6420", Header: http.Header{}})
		vpAssert(vpReached == 1, "acceptable_request_reaches_the_endpoint")
		// (b) DNS rebinding host
		vpResetHTTP()
		vpAuthUser, vpAuthPass, vpAuthOK = "u", "p", true
		rt.handler.ServeHTTP(vpNullWriter{}, &http.Request{Method: "GET", Host: "evil.example.com:6420", Header: http.Header{}})
		vpAssert((vpReached == 0) == !c.disableHeaderCheck, "unacceptable_host_is_refused_on_every_route_when_checking_is_on")
		// (c) wrong credentials
		vpResetHTTP()
		vpAuthUser, vpAuthPass, vpAuthOK = "u", "x", true
		rt.handler.ServeHTTP(vpNullWriter{}, &http.Request{Method: "GET", Host: "127.0.0.1:6420", Header: http.Header{}})
		vpAssert(vpReached == 0 && vpStatus == http.StatusUnauthorized, "wrong_credentials_are_refused_on_every_route")
		// (d) state-changing request without a valid token
		vpResetHTTP()
		vpAuthUser, vpAuthPass, vpAuthOK = "u", "p", true
		vpHeaders["Content-Type"] = "application/json"
		vpCSRFResult = ErrCSRFInvalid
		rt.handler.ServeHTTP(vpNullWriter{}, &http.Request{Method: "POST", Host: "127.0.0.1:6420", Header: http.Header{}})
		if rt.pattern != "/api/v1/csrf" {
			vpAssert((vpReached == 0) == !c.disableCSRF, "state_changing_request_without_token_is_refused_on_every_route_when_checking_is_on")
		}
	}
}
