package wallet

import (
	"bytes"
	"errors"

	"github.com/skycoin/skycoin/src/cipher"
)

// C19 — the wallet service's update protocol: every operation works on a copy,
// saves it, and only then replaces the wallet in memory; a failure at any step
// (the operation itself, locking, unlocking, the save) changes neither the
// memory view nor the file. The wallet implementation and the file system are
// stand-ins; the Service methods, Save and GuardUpdate run for real.

var errVpSvc = errors.New("vp: step failed")

type vpSvcWallet struct {
	Wallet
	id      string
	label   byte
	enc     bool
	temp    bool
	n       byte // addresses generated
	secrets bool // secrets present in the clear
	seed    byte // stands for the seed: wallets with the same seed have the same fingerprint
}

func (w *vpSvcWallet) Filename() string    { return w.id }
func (w *vpSvcWallet) IsEncrypted() bool   { return w.enc }
func (w *vpSvcWallet) IsTemp() bool        { return w.temp }
func (w *vpSvcWallet) Type() string        { return WalletTypeDeterministic }
func (w *vpSvcWallet) Fingerprint() string { return "fp-" + string([]byte{w.seed}) }
func (w *vpSvcWallet) SetLabel(l string) {
	w.label = 0
	if len(l) > 0 {
		w.label = l[0]
	}
}
func (w *vpSvcWallet) Clone() Wallet { c := *w; return &c }
func (w *vpSvcWallet) Erase()        { w.secrets = false }
func (w *vpSvcWallet) CopyFromRef(src Wallet) {
	*w = *(src.(*vpSvcWallet))
}
func (w *vpSvcWallet) Lock(password []byte) error {
	if len(password) == 0 {
		return ErrMissingPassword
	}
	if w.enc {
		return ErrWalletEncrypted
	}
	if vpBool("lockFails") {
		return errVpSvc
	}
	w.enc, w.secrets = true, false
	return nil
}
func (w *vpSvcWallet) Unlock(password []byte) (Wallet, error) {
	if !w.enc {
		return nil, ErrWalletNotEncrypted
	}
	if len(password) == 0 {
		return nil, ErrMissingPassword
	}
	if vpBool("wrongPassword") {
		return nil, ErrInvalidPassword
	}
	c := *w
	c.enc, c.secrets = false, true
	return &c, nil
}
func (w *vpSvcWallet) GenerateAddresses(options ...Option) ([]cipher.Addresser, error) {
	if vpBool("generateFails") {
		w.n++ // a failing step may leave its copy half modified
		return nil, errVpSvc
	}
	w.n++
	return []cipher.Addresser{cipher.Address{}}, nil
}

// the file form of the stand-in wallet: a bijection of its persistent state
func (w *vpSvcWallet) Serialize() ([]byte, error) {
	if vpBool("serializeFails") {
		return nil, errVpSvc
	}
	return w.bytes(), nil
}
func (w *vpSvcWallet) bytes() []byte {
	e := byte(0)
	if w.enc {
		e = 1
	}
	return []byte{w.label, e, w.n}
}

var vpSvcDisk map[string][]byte

// wallet construction from a seed (key derivation is C16/C17): a fresh stand-in
var vpSvcNewSeed byte

func vpModelSvcCreateWallet(serv *Service, wltName string, options Options) (Wallet, error) {
	if vpBool("createFails") {
		return nil, errVpSvc
	}
	return &vpSvcWallet{id: wltName, seed: vpSvcNewSeed, secrets: true, n: 1}, nil
}

// file.SaveBinary: all or nothing (C20)
func vpModelSvcSaveBinary(filename string, data []byte, mode interface{}) error {
	if vpBool("saveFails") {
		return errVpSvc
	}
	vpSvcDisk[filename] = append([]byte(nil), data...)
	return nil
}
func vpModelSvcIsWritable(name string) bool { return vpBool("fileWritable") }

//vp:prop C19
//vp:bounds one wallet (encrypted or not, temporary or not, free label and address count) loaded from its file; one service operation out of: creation of a second wallet (same or new file name, same or new seed), label change, encrypt, decrypt, new addresses, Update and UpdateSecrets with a callback that modifies the copy and succeeds or fails; free password presence; every step (callback, lock, unlock, generation, serialisation, file save, writability probe) may fail
//vp:assume the wallet implementation is a stand-in with the Lock/Unlock/Clone contract of the real ones (C18); its file form is a bijection of its persistent state (JSON is not executed); file.SaveBinary is all-or-nothing (C20)
//vp:rule (*github.com/skycoin/skycoin/src/wallet.Service).createWallet model:vpModelSvcCreateWallet
//vp:rule github.com/skycoin/skycoin/src/util/file.SaveBinary model:vpModelSvcSaveBinary
//vp:rule github.com/skycoin/skycoin/src/util/file.IsWritable model:vpModelSvcIsWritable
//vp:noreplay wallet and file system are stand-ins
func vpH_C19_UpdateProtocol() {
	const id = "w.wlt"
	w0 := &vpSvcWallet{id: id, seed: 'A', label: vpU8("label"), enc: vpBool("encrypted"), temp: vpBool("temporary"), n: vpU8("addresses")}
	vpAssume(w0.n < 200)
	w0.secrets = !w0.enc
	serv := &Service{wallets: Wallets{}, fingerprints: map[string]string{}, config: Config{WalletDir: "", EnableWalletAPI: true}}
	serv.wallets[id] = w0.Clone()
	serv.fingerprints[w0.Fingerprint()] = id
	vpSvcDisk = map[string][]byte{}
	if !w0.temp {
		vpSvcDisk[id] = w0.bytes() // what the service was loaded from
	}
	var pw []byte
	if vpBool("passwordGiven") {
		pw = []byte{'p'}
	}
	mutate := func(w Wallet) error {
		w.SetLabel("Z")
		if vpBool("callbackFails") {
			return errVpSvc
		}
		return nil
	}

	var err error
	op := vpLen("operation", 0, 6)
	if op == 6 {
		vpC19Create(serv, w0)
		return
	}
	switch op {
	case 0:
		err = serv.UpdateWalletLabel(id, "L")
	case 1:
		_, err = serv.EncryptWallet(id, pw)
	case 2:
		_, err = serv.DecryptWallet(id, pw)
	case 3:
		_, err = serv.NewAddresses(id, pw)
	case 4:
		err = serv.Update(id, mutate)
	case 5:
		err = serv.UpdateSecrets(id, pw, mutate)
	}

	mem, ok := serv.wallets[id].(*vpSvcWallet)
	vpAssert(ok && mem != nil, "wallet_stays_loaded")
	disk, onDisk := vpSvcDisk[id]
	if err != nil {
		vpAssert(bytes.Equal(mem.bytes(), w0.bytes()), "failed_operation_leaves_memory_unchanged")
		if w0.temp {
			vpAssert(!onDisk, "temporary_wallet_is_never_written")
		} else {
			vpAssert(onDisk && bytes.Equal(disk, w0.bytes()), "failed_operation_leaves_the_file_unchanged")
		}
		vpReach("failed")
		return
	}
	if w0.temp {
		vpAssert(!onDisk, "temporary_wallet_is_never_written")
	} else {
		vpAssert(onDisk && bytes.Equal(disk, mem.bytes()), "memory_equals_what_a_fresh_service_would_load")
	}
	if mem.enc {
		vpAssert(!mem.secrets, "encrypted_wallet_in_memory_holds_no_clear_secrets")
	}
	vpReach("succeeded")
}

// creation of another wallet next to the loaded one
func vpC19Create(serv *Service, w0 *vpSvcWallet) {
	name := [2]string{"w.wlt", "x.wlt"}[vpLen("newName", 0, 1)]
	vpSvcNewSeed = [2]byte{'A', 'B'}[vpLen("newSeed", 0, 1)]
	got, err := serv.CreateWallet(name, Options{})
	mem, ok := serv.wallets[w0.id].(*vpSvcWallet)
	vpAssert(ok && bytes.Equal(mem.bytes(), w0.bytes()) && mem.seed == 'A', "existing_wallet_untouched_by_a_creation")
	disk, onDisk := vpSvcDisk[w0.id]
	other, otherOnDisk := vpSvcDisk["x.wlt"]
	if err != nil {
		vpAssert(got == nil && len(serv.wallets) == 1, "failed_creation_leaves_memory_unchanged")
		if w0.temp {
			vpAssert(!onDisk, "failed_creation_leaves_the_files_unchanged")
		} else {
			vpAssert(onDisk && bytes.Equal(disk, w0.bytes()), "failed_creation_leaves_the_files_unchanged")
		}
		vpAssert(!otherOnDisk, "failed_creation_leaves_the_files_unchanged")
		vpReach("create-failed")
		return
	}
	vpAssert(name == "x.wlt" && vpSvcNewSeed == 'B', "duplicate_name_or_seed_is_refused")
	nw, ok2 := serv.wallets["x.wlt"].(*vpSvcWallet)
	vpAssert(ok2 && len(serv.wallets) == 2, "created_wallet_is_loaded")
	vpAssert(otherOnDisk && bytes.Equal(other, nw.bytes()), "memory_equals_what_a_fresh_service_would_load")
	vpAssert(serv.fingerprints[nw.Fingerprint()] == "x.wlt" && serv.fingerprints[w0.Fingerprint()] == w0.id, "fingerprints_registered")
	vpReach("created")
}
