package wallet

import (
	"bytes"
	"errors"

	"github.com/skycoin/skycoin/src/cipher"
)

// C19 — the wallet service's update protocol: every operation works on a copy,
// saves it, and only then replaces the wallet in memory; a failure at any step
// (the operation itself, locking, unlocking, the save) changes neither the
// memory view nor the file. The wallet implementation and the file system are
// stand-ins; the Service methods, Save and GuardUpdate run for real.

var errVpSvc = errors.New("vp: step failed")

type vpSvcWallet struct {
	Wallet
	id      string
	label   byte
	enc     bool
	temp    bool
	n       byte // addresses generated
	secrets bool // secrets present in the clear
}

func (w *vpSvcWallet) Filename() string    { return w.id }
func (w *vpSvcWallet) IsEncrypted() bool   { return w.enc }
func (w *vpSvcWallet) IsTemp() bool        { return w.temp }
func (w *vpSvcWallet) Type() string        { return WalletTypeDeterministic }
func (w *vpSvcWallet) Fingerprint() string { return "fp-" + w.id }
func (w *vpSvcWallet) SetLabel(l string) {
	w.label = 0
	if len(l) > 0 {
		w.label = l[0]
	}
}
func (w *vpSvcWallet) Clone() Wallet { c := *w; return &c }
func (w *vpSvcWallet) Erase()        { w.secrets = false }
func (w *vpSvcWallet) CopyFromRef(src Wallet) {
	*w = *(src.(*vpSvcWallet))
}
func (w *vpSvcWallet) Lock(password []byte) error {
	if len(password) == 0 {
		return ErrMissingPassword
	}
	if w.enc {
		return ErrWalletEncrypted
	}
	if vpBool("lockFails") {
		return errVpSvc
	}
	w.enc, w.secrets = true, false
	return nil
}
func (w *vpSvcWallet) Unlock(password []byte) (Wallet, error) {
	if !w.enc {
		return nil, ErrWalletNotEncrypted
	}
	if len(password) == 0 {
		return nil, ErrMissingPassword
	}
	if vpBool("wrongPassword") {
		return nil, ErrInvalidPassword
	}
	c := *w
	c.enc, c.secrets = false, true
	return &c, nil
}
func (w *vpSvcWallet) GenerateAddresses(options ...Option) ([]cipher.Addresser, error) {
	if vpBool("generateFails") {
		w.n++ // a failing step may leave its copy half modified
		return nil, errVpSvc
	}
	w.n++
	return []cipher.Addresser{cipher.Address{}}, nil
}

// the file form of the stand-in wallet: a bijection of its persistent state
func (w *vpSvcWallet) Serialize() ([]byte, error) {
	if vpBool("serializeFails") {
		return nil, errVpSvc
	}
	return w.bytes(), nil
}
func (w *vpSvcWallet) bytes() []byte {
	e := byte(0)
	if w.enc {
		e = 1
	}
	return []byte{w.label, e, w.n}
}

var vpSvcDisk map[string][]byte

// file.SaveBinary: all or nothing (C20)
func vpModelSvcSaveBinary(filename string, data []byte, mode interface{}) error {
	if vpBool("saveFails") {
		return errVpSvc
	}
	vpSvcDisk[filename] = append([]byte(nil), data...)
	return nil
}
func vpModelSvcIsWritable(name string) bool { return vpBool("fileWritable") }

//vp:prop C19
//vp:bounds one wallet (encrypted or not, temporary or not, free label and address count) loaded from its file; one service operation out of: label change, encrypt, decrypt, new addresses, Update and UpdateSecrets with a callback that modifies the copy and succeeds or fails; free password presence; every step (callback, lock, unlock, generation, serialisation, file save, writability probe) may fail
//vp:assume the wallet implementation is a stand-in with the Lock/Unlock/Clone contract of the real ones (C18); its file form is a bijection of its persistent state (JSON is not executed); file.SaveBinary is all-or-nothing (C20)
//vp:rule github.com/skycoin/skycoin/src/util/file.SaveBinary model:vpModelSvcSaveBinary
//vp:rule github.com/skycoin/skycoin/src/util/file.IsWritable model:vpModelSvcIsWritable
//vp:noreplay wallet and file system are stand-ins
func vpH_C19_UpdateProtocol() {
	const id = "w.wlt"
	w0 := &vpSvcWallet{id: id, label: vpU8("label"), enc: vpBool("encrypted"), temp: vpBool("temporary"), n: vpU8("addresses")}
	vpAssume(w0.n < 200)
	w0.secrets = !w0.enc
	serv := &Service{wallets: Wallets{}, fingerprints: map[string]string{}, config: Config{WalletDir: "", EnableWalletAPI: true}}
	serv.wallets[id] = w0.Clone()
	vpSvcDisk = map[string][]byte{}
	if !w0.temp {
		vpSvcDisk[id] = w0.bytes() // what the service was loaded from
	}
	var pw []byte
	if vpBool("passwordGiven") {
		pw = []byte{'p'}
	}
	mutate := func(w Wallet) error {
		w.SetLabel("Z")
		if vpBool("callbackFails") {
			return errVpSvc
		}
		return nil
	}

	var err error
	switch vpLen("operation", 0, 5) {
	case 0:
		err = serv.UpdateWalletLabel(id, "L")
	case 1:
		_, err = serv.EncryptWallet(id, pw)
	case 2:
		_, err = serv.DecryptWallet(id, pw)
	case 3:
		_, err = serv.NewAddresses(id, pw)
	case 4:
		err = serv.Update(id, mutate)
	case 5:
		err = serv.UpdateSecrets(id, pw, mutate)
	}

	mem, ok := serv.wallets[id].(*vpSvcWallet)
	vpAssert(ok && mem != nil, "wallet_stays_loaded")
	disk, onDisk := vpSvcDisk[id]
	if err != nil {
		vpAssert(bytes.Equal(mem.bytes(), w0.bytes()), "failed_operation_leaves_memory_unchanged")
		if w0.temp {
			vpAssert(!onDisk, "temporary_wallet_is_never_written")
		} else {
			vpAssert(onDisk && bytes.Equal(disk, w0.bytes()), "failed_operation_leaves_the_file_unchanged")
		}
		vpReach("failed")
		return
	}
	if w0.temp {
		vpAssert(!onDisk, "temporary_wallet_is_never_written")
	} else {
		vpAssert(onDisk && bytes.Equal(disk, mem.bytes()), "memory_equals_what_a_fresh_service_would_load")
	}
	if mem.enc {
		vpAssert(!mem.secrets, "encrypted_wallet_in_memory_holds_no_clear_secrets")
	}
	vpReach("succeeded")
}
