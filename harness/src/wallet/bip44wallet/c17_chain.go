package bip44wallet

import (
	"bytes"
	"encoding/binary"

	"github.com/skycoin/skycoin/src/cipher"
	"github.com/skycoin/skycoin/src/cipher/bip32"
	"github.com/skycoin/skycoin/src/wallet"
)

// C17-H2 — a bip44 chain derives the same entries however generation is split
// into batches, with or without the private key at hand (locked / watch-only),
// and filling in the secrets after unlocking (syncSecrets + unpackSecrets)
// yields the secrets a never-locked wallet holds.

func vpSer32(i uint32) []byte {
	var b [4]byte
	binary.BigEndian.PutUint32(b[:], i)
	return b[:]
}

// Public side: an extended public key is represented by its derivation path
// (a free term algebra: different paths give different keys, collision freedom),
// written into the key bytes, so addresses and the keys of the secrets store are
// concrete. Private side: child derivation is an uninterpreted function of the
// (free) account key, so secrets are solver terms.
func vpModelCKDPub(k *bip32.PublicKey, idx uint32) (*bip32.PublicKey, error) {
	c := &bip32.PublicKey{}
	c.Key = append([]byte(nil), k.Key...)
	depth := c.Key[32]
	c.Key[1+depth] = byte(idx) + 1
	c.Key[32] = depth + 1
	return c, nil
}

func vpModelCKDPriv(k *bip32.PrivateKey, idx uint32) (*bip32.PrivateKey, error) {
	c := &bip32.PrivateKey{}
	c.Key = vpUFBytes("ckdpriv.key", 32, k.Key, vpSer32(idx))
	return c, nil
}

func vpPubOf(sec []byte) []byte { return vpUFBytes("pubkey", 33, sec) }

func vpModelPubFromSec(sec cipher.SecKey) cipher.PubKey {
	var pub cipher.PubKey
	copy(pub[:], vpPubOf(sec[:]))
	return pub
}

// key validity is the curve's business (C14): conversions keep the bytes
func vpModelNewPubKey(b []byte) (cipher.PubKey, error) {
	var p cipher.PubKey
	if len(b) != len(p) {
		return p, cipher.ErrInvalidLengthPubKey
	}
	copy(p[:], b)
	return p, nil
}

func vpModelNewSecKey(b []byte) (cipher.SecKey, error) {
	var p cipher.SecKey
	if len(b) != len(p) {
		return p, cipher.ErrInvalidLengthSecKey
	}
	copy(p[:], b)
	return p, nil
}

// the address of a public key and its text: injective functions (C15), here the
// first 20 key bytes (which hold the whole path) and the identity embedding
func vpModelAddrFromPub(pk cipher.PubKey) cipher.Address {
	var a cipher.Address
	copy(a.Key[:], pk[:20])
	return a
}
func vpModelAddrString(a cipher.Address) string { return string(a.Key[:]) }

func vpModelHexEncode(b []byte) string          { return string(b) }
func vpModelHexDecode(s string) ([]byte, error) { return []byte(s), nil }

// vpAccount builds an account whose two chain nodes carry the public keys of the
// private chain keys, and states the public/private derivation commutation
// (decided in C16 under the group homomorphism) for the indexes used.
func vpAccount(acct *bip32.PrivateKey, n int) *bip44Account {
	a := &bip44Account{CoinType: wallet.CoinTypeSkycoin}
	a.Account.PrivateKey = acct
	for ci := uint32(0); ci < 2; ci++ {
		chainPriv, _ := vpModelCKDPriv(acct, ci)
		c := bip44Chain{ChainIndex: ci}
		c.PubKey.Key = make([]byte, 33)
		c.PubKey.Key[0], c.PubKey.Key[1], c.PubKey.Key[32] = 2, byte(ci)+1, 1
		for i := 0; i < n; i++ {
			cp, _ := vpModelCKDPriv(chainPriv, uint32(i))
			cq, _ := vpModelCKDPub(&c.PubKey, uint32(i))
			vpAssume(bytes.Equal(vpPubOf(cp.Key), cq.Key))
		}
		a.Chains = append(a.Chains, c)
	}
	return a
}

//vp:prop C17
//vp:bounds one bip44 account with a free 32-byte account key and both chains; on a chosen chain a first batch of 0..2 and a second batch of 0..2 addresses, each batch generated with the private key at hand or without it (locked wallet), against one unlocked batch of the total; then the secrets are filled in (syncSecrets into a secrets store that already holds the secrets of the first 0..total entries) and unpacked
//vp:assume private child derivation is an uninterpreted function of (key, index); extended public keys are represented by their derivation path (collision freedom) and commute with private derivation for the indexes used (C16); key validity checks always pass (C14); address-of-public-key and address text are injective (C15); hexadecimal text is the identity embedding
//vp:rule (*github.com/skycoin/skycoin/src/cipher/bip32.PrivateKey).NewPrivateChildKey model:vpModelCKDPriv
//vp:rule (*github.com/skycoin/skycoin/src/cipher/bip32.PublicKey).NewPublicChildKey model:vpModelCKDPub
//vp:rule github.com/skycoin/skycoin/src/cipher.NewPubKey model:vpModelNewPubKey
//vp:rule github.com/skycoin/skycoin/src/cipher.NewSecKey model:vpModelNewSecKey
//vp:rule github.com/skycoin/skycoin/src/cipher.MustPubKeyFromSecKey model:vpModelPubFromSec
//vp:rule github.com/skycoin/skycoin/src/cipher.AddressFromPubKey model:vpModelAddrFromPub
//vp:rule (github.com/skycoin/skycoin/src/cipher.Address).String model:vpModelAddrString
//vp:rule encoding/hex.EncodeToString model:vpModelHexEncode
//vp:rule encoding/hex.DecodeString model:vpModelHexDecode
//vp:noreplay key derivation is uninterpreted
func vpH_C17_Bip44ChainBatches() {
	acct := &bip32.PrivateKey{}
	acct.Key = vpBytes("accountKey", 32)
	ci := uint32(vpLen("chain", 0, 1))
	n, m := vpLen("firstBatch", 0, 2), vpLen("secondBatch", 0, 2)
	total := n + m

	// reference: one batch with the private key at hand
	refA := vpAccount(acct, total)
	all, err := refA.newAddresses(ci, uint32(total))
	ref := &refA.Chains[ci]
	vpAssert(err == nil && len(all) == total && len(ref.Entries) == total, "single_batch_generated")
	vpAssert(len(refA.Chains[1-ci].Entries) == 0, "other_chain_untouched")

	// two batches, each with or without the private key
	a := vpAccount(acct, total)
	c := &a.Chains[ci]
	u1, u2 := vpBool("firstUnlocked"), vpBool("secondUnlocked")
	a.Account.PrivateKey = nil
	if u1 {
		a.Account.PrivateKey = acct
	}
	a1, err := a.newAddresses(ci, uint32(n))
	vpAssert(err == nil && len(a1) == n, "first_batch_generated")
	a.Account.PrivateKey = nil
	if u2 {
		a.Account.PrivateKey = acct
	}
	a2, err := a.newAddresses(ci, uint32(m))
	vpAssert(err == nil && len(a2) == m, "second_batch_generated")
	vpAssert(len(c.Entries) == total && len(a.Chains[1-ci].Entries) == 0, "entry_count_is_total_generated")

	for i := 0; i < total; i++ {
		e, r := c.Entries[i], ref.Entries[i]
		vpAssert(e.Public == r.Public && e.Address == r.Address && e.ChildNumber == uint32(i) && r.ChildNumber == uint32(i), "batched_or_locked_generation_gives_the_same_addresses")
		vpAssert(r.Address == cipher.Addresser(vpModelAddrFromPub(r.Public)), "entry_address_is_address_of_its_public_key")
		vpAssert(r.Public == vpModelPubFromSec(r.Secret), "entry_public_key_is_the_one_of_its_secret_key")
		unlocked := u1
		if i >= n {
			unlocked = u2
		}
		if unlocked {
			vpAssert(e.Secret == r.Secret, "secret_key_independent_of_batching")
		} else {
			vpAssert(e.Secret == (cipher.SecKey{}), "locked_generation_holds_no_secret")
		}
		var got cipher.Addresser
		if i < n {
			got = a1[i]
		} else {
			got = a2[i-n]
		}
		vpAssert(got == all[i], "returned_addresses_are_the_new_entries_in_order")
	}

	// unlock: the store already holds the secrets of the first `have` entries
	ss := wallet.Secrets{}
	have := vpLen("secretsAlreadyStored", 0, total)
	for i := 0; i < have; i++ {
		ss.Set(ref.Entries[i].Address.String(), ref.Entries[i].Secret.Hex())
	}
	for k := range a.Chains { // as bip44Account.syncSecrets / unpackSecrets do
		vpAssert(a.Chains[k].syncSecrets(ss, acct) == nil, "secrets_filled_in")
	}
	for k := range a.Chains {
		vpAssert(a.Chains[k].unpackSecrets(ss) == nil, "secrets_unpacked")
	}
	for i := 0; i < total; i++ {
		vpAssert(c.Entries[i].Secret == ref.Entries[i].Secret, "secrets_after_unlock_equal_those_of_a_never_locked_wallet")
		vpAssert(c.Entries[i].Public == vpModelPubFromSec(c.Entries[i].Secret), "unlocked_entry_public_key_matches_its_secret_key")
	}
	vpReach("end")
}
