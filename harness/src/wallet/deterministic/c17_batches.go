package deterministic

import (
	"github.com/skycoin/skycoin/src/cipher"
	"github.com/skycoin/skycoin/src/wallet"
)

// C17-H1 — the addresses of a deterministic wallet depend only on the seed and
// on how many have been generated, not on how generation was split into batches;
// every entry's address is the address of its public key and its public key is
// the one of its secret key.

// the key sequence: an uninterpreted step function seed -> (next seed, secret key)
func vpModelKeyPairIterator(seed []byte) ([]byte, cipher.PubKey, cipher.SecKey, error) {
	if len(seed) == 0 {
		return nil, cipher.PubKey{}, cipher.SecKey{}, cipher.ErrEmptySeed
	}
	next := vpUFBytes("keyiter.seed", 32, seed)
	var sec cipher.SecKey
	copy(sec[:], vpUFBytes("keyiter.sec", 32, seed))
	return next, vpModelPubFromSec(sec), sec, nil
}

func vpModelPubFromSec(sec cipher.SecKey) cipher.PubKey {
	var pub cipher.PubKey
	copy(pub[:], vpUFBytes("pubkey", 33, sec[:]))
	return pub
}

//vp:prop C17
//vp:bounds deterministic (seed-chained) wallet with a free 4-byte seed; a first batch of 0..2 and a second batch of 0..2 addresses against one batch of the total (up to 4)
//vp:assume the key sequence (secp256k1 deterministic key pair iterator) is an uninterpreted step function of the seed, public-key derivation an uninterpreted function of the secret key, SHA256/RIPEMD160 uninterpreted; hexadecimal text is a bijection (identity embedding)
//vp:rule github.com/skycoin/skycoin/src/cipher.DeterministicKeyPairIterator model:vpModelKeyPairIterator
//vp:rule github.com/skycoin/skycoin/src/cipher.MustPubKeyFromSecKey model:vpModelPubFromSec
//vp:rule encoding/hex.EncodeToString model:vpModelHexEncode
//vp:rule encoding/hex.DecodeString model:vpModelHexDecode
//vp:noreplay key derivation is uninterpreted
func vpH_C17_DeterministicBatches() {
	seed := vpStr("seed", 4)
	n, m := vpLen("firstBatch", 0, 2), vpLen("secondBatch", 0, 2)
	w1 := vpWallet(seed)
	a1, err := w1.GenerateAddresses(wallet.OptionGenerateN(uint64(n)))
	vpAssert(err == nil && len(a1) == n, "first_batch_generated")
	a2, err := w1.GenerateAddresses(wallet.OptionGenerateN(uint64(m)))
	vpAssert(err == nil && len(a2) == m, "second_batch_generated")
	w2 := vpWallet(seed)
	all, err := w2.GenerateAddresses(wallet.OptionGenerateN(uint64(n + m)))
	vpAssert(err == nil && len(all) == n+m, "single_batch_generated")
	vpAssert(len(w1.entries) == n+m && len(w2.entries) == n+m, "entry_count_is_total_generated")
	for i := 0; i < n+m; i++ {
		e1, e2 := w1.entries[i], w2.entries[i]
		vpAssert(e1.Secret == e2.Secret && e1.Public == e2.Public && e1.Address == e2.Address, "batched_generation_gives_the_same_entries")
		vpAssert(e1.Address == cipher.Addresser(cipher.AddressFromPubKey(e1.Public)), "entry_address_is_address_of_its_public_key")
		vpAssert(e1.Public == vpModelPubFromSec(e1.Secret), "entry_public_key_is_the_one_of_its_secret_key")
		var got cipher.Addresser
		if i < n {
			got = a1[i]
		} else {
			got = a2[i-n]
		}
		vpAssert(got == all[i] && got == e1.Address, "returned_addresses_are_the_new_entries_in_order")
	}
	vpAssert(w1.Meta.LastSeed() == w2.Meta.LastSeed(), "last_seed_depends_only_on_the_total")
	vpAssert(w1.Meta.Seed() == seed && w2.Meta.Seed() == seed, "seed_unchanged")
}

// scan-ahead: a finder reporting arbitrary activity, or failing
type vpFinder struct {
	active []bool
	fail   bool
}

func (f vpFinder) AddressesActivity(addrs []cipher.Addresser) ([]bool, error) {
	if f.fail {
		return nil, wallet.ErrWalletNotExist
	}
	return f.active[:len(addrs)], nil
}

//vp:prop C17
//vp:bounds deterministic wallet with a free 4-byte seed holding 0..2 addresses; one scan-ahead of 1..2 addresses with every activity pattern or a failing finder; then 0..1 further addresses; compared with single-batch generation of the same total
//vp:assume the key sequence is an uninterpreted step function of the seed, public-key derivation an uninterpreted function of the secret key, SHA256/RIPEMD160 uninterpreted; hexadecimal text the identity embedding
//vp:rule github.com/skycoin/skycoin/src/cipher.DeterministicKeyPairIterator model:vpModelKeyPairIterator
//vp:rule github.com/skycoin/skycoin/src/cipher.MustPubKeyFromSecKey model:vpModelPubFromSec
//vp:rule encoding/hex.EncodeToString model:vpModelHexEncode
//vp:rule encoding/hex.DecodeString model:vpModelHexDecode
//vp:noreplay key derivation is uninterpreted
func vpH_C17_DeterministicScan() {
	seed := vpStr("seed", 4)
	n := vpLen("held", 0, 2)
	scanN := vpLen("scanAhead", 1, 2)
	w := vpWallet(seed)
	_, err := w.GenerateAddresses(wallet.OptionGenerateN(uint64(n)))
	vpAssert(err == nil, "first_batch_generated")
	f := vpFinder{fail: vpBool("finderFails"), active: []bool{vpBool("active0"), vpBool("active1")}}
	keep := 0
	for i := 0; i < scanN; i++ {
		if f.active[i] {
			keep = i + 1
		}
	}
	got, err := w.ScanAddresses(uint64(scanN), f)
	if f.fail {
		vpAssert(err != nil, "failing_scan_reports_the_failure")
		keep = 0
	} else {
		vpAssert(err == nil && len(got) == keep, "scan_keeps_addresses_up_to_the_last_active_one")
	}
	m := vpLen("afterScan", 0, 1)
	_, err = w.GenerateAddresses(wallet.OptionGenerateN(uint64(m)))
	vpAssert(err == nil, "later_batch_generated")
	total := n + keep + m
	ref := vpWallet(seed)
	_, err = ref.GenerateAddresses(wallet.OptionGenerateN(uint64(total)))
	vpAssert(err == nil && len(ref.entries) == total && len(w.entries) == total, "entry_count_is_total_generated")
	for i := 0; i < total; i++ {
		vpAssert(w.entries[i].Secret == ref.entries[i].Secret && w.entries[i].Address == ref.entries[i].Address, "addresses_depend_only_on_the_seed_and_the_count")
	}
	if total > 0 {
		vpAssert(w.Meta.LastSeed() == ref.Meta.LastSeed(), "last_seed_depends_only_on_the_total")
	}
}
