package deterministic

//vp:shared

import (
	"github.com/skycoin/skycoin/src/wallet"
)

// hexadecimal text is a bijection between bytes and strings: represented by the identity embedding
func vpModelHexEncode(b []byte) string          { return string(b) }
func vpModelHexDecode(s string) ([]byte, error) { return []byte(s), nil }

func vpWallet(seed string) *Wallet {
	return &Wallet{
		Meta: wallet.Meta{
			wallet.MetaSeed:      seed,
			wallet.MetaLastSeed:  seed,
			wallet.MetaEncrypted: "false",
			wallet.MetaCoin:      string(wallet.CoinTypeSkycoin),
		},
		entries: wallet.Entries{},
	}
}

