package deterministic

import (
	"bytes"
	"errors"

	"github.com/skycoin/skycoin/src/cipher"
	"github.com/skycoin/skycoin/src/cipher/crypto"
	"github.com/skycoin/skycoin/src/wallet"
)

// C18-H4 — Lock / Unlock bookkeeping of the deterministic wallet: a locked wallet
// holds no secret in the clear, records how it was encrypted, keeps its public
// data, and unlocking with the same password gives every secret back; a wrong
// password is refused and neither operation changes the object it fails on.

// an ideal authenticated cipher: the ciphertext determines (type, password,
// plaintext); decryption under another type or password fails
type vpCipher struct{ typ byte }

func (c vpCipher) Encrypt(data, password []byte) ([]byte, error) {
	out := []byte{c.typ, byte(len(password))}
	out = append(out, password...)
	return append(out, data...), nil
}

func (c vpCipher) Decrypt(data, password []byte) ([]byte, error) {
	if len(data) < 2 || data[0] != c.typ || int(data[1]) != len(password) || len(data) < 2+len(password) {
		return nil, errors.New("vp: cannot decrypt")
	}
	if !bytes.Equal(data[2:2+len(password)], password) {
		return nil, errors.New("vp: wrong password")
	}
	return append([]byte(nil), data[2+len(password):]...), nil
}

func vpModelGetCrypto(ct crypto.CryptoType) (crypto.Cryptor, error) {
	switch ct {
	case crypto.CryptoTypeSha256Xor:
		return vpCipher{1}, nil
	case crypto.CryptoTypeScryptChacha20poly1305:
		return vpCipher{2}, nil
	case crypto.CryptoTypeScryptChacha20poly1305Insecure:
		return vpCipher{3}, nil
	}
	return nil, errors.New("vp: unknown crypto type")
}

// the secrets container's text form is a bijection: a registry of serialised maps
var vpSerialised []wallet.Secrets

func vpModelSecretsSerialize(s wallet.Secrets) ([]byte, error) {
	c := wallet.Secrets{}
	for k, v := range s {
		c[k] = v
	}
	vpSerialised = append(vpSerialised, c)
	return []byte{byte(len(vpSerialised))}, nil
}

func vpModelSecretsDeserialize(s wallet.Secrets, data []byte) error {
	if len(data) != 1 || data[0] == 0 || int(data[0]) > len(vpSerialised) {
		return errors.New("vp: malformed secrets")
	}
	for k, v := range vpSerialised[data[0]-1] {
		s[k] = v
	}
	return nil
}

func vpModelAddrString(a cipher.Address) string { return "addr:" + string(a.Key[:1]) }

//vp:prop C18
//vp:bounds deterministic wallet with a free 3-byte seed and last seed, 0..2 entries with free secret keys and distinct addresses; recorded crypto type empty, sha256-xor or scrypt-chacha20poly1305; passwords of 0..2 free bytes for locking and unlocking
//vp:assume the cipher is ideal (the ciphertext determines type, password and plaintext; decryption under another type or password fails) - the real ciphers' robustness is decided by the other C18 harnesses; the text form of the secrets container is a bijection (JSON is not executed); address text injective; hexadecimal text the identity embedding
//vp:rule github.com/skycoin/skycoin/src/cipher/crypto.GetCrypto model:vpModelGetCrypto
//vp:rule (github.com/skycoin/skycoin/src/wallet.Secrets).Serialize model:vpModelSecretsSerialize
//vp:rule (github.com/skycoin/skycoin/src/wallet.Secrets).Deserialize model:vpModelSecretsDeserialize
//vp:rule (github.com/skycoin/skycoin/src/cipher.Address).String model:vpModelAddrString
//vp:rule encoding/hex.EncodeToString model:vpModelHexEncode
//vp:rule encoding/hex.DecodeString model:vpModelHexDecode
//vp:noreplay the cipher and the container text form are models
func vpH_C18_LockUnlock() {
	vpSerialised = nil
	seed, last := vpStr("seed", 3), vpStr("lastSeed", 3)
	vpAssume(seed != "" && last != "")
	w := vpWallet(seed)
	w.Meta.SetLastSeed(last)
	ctIn := [3]crypto.CryptoType{"", crypto.CryptoTypeSha256Xor, crypto.CryptoTypeScryptChacha20poly1305}[vpLen("recordedCryptoType", 0, 2)]
	if ctIn != "" {
		w.Meta.SetCryptoType(ctIn)
	}
	n := vpLen("entries", 0, 2)
	for i := 0; i < n; i++ {
		var e wallet.Entry
		var a cipher.Address
		a.Key[0] = byte('a' + i)
		e.Address = a
		vpFill("public", &e.Public)
		vpFill("secret", &e.Secret)
		w.entries = append(w.entries, e)
	}
	orig := w.Clone().(*Wallet)
	pw := vpBytes("password", vpLen("passwordLen", 0, 2))

	err := w.Lock(pw)
	if len(pw) == 0 {
		vpAssert(err == wallet.ErrMissingPassword, "empty_password_is_refused")
		vpAssert(w.Seed() == seed && !w.IsEncrypted(), "failed_lock_changes_nothing")
		return
	}
	vpAssert(err == nil, "lock_succeeds")
	vpAssert(w.IsEncrypted(), "locked_wallet_is_marked_encrypted")
	vpAssert(w.Seed() == "" && w.LastSeed() == "", "locked_wallet_holds_no_seed")
	wantCT := ctIn
	if wantCT == "" {
		wantCT = crypto.DefaultCryptoType
	}
	vpAssert(w.CryptoType() == wantCT, "locked_wallet_records_the_cipher_that_was_used")
	vpAssert(w.Secrets() != "", "locked_wallet_carries_the_encrypted_secrets")
	vpAssert(len(w.entries) == n, "entries_kept")
	for i := 0; i < n; i++ {
		vpAssert(w.entries[i].Secret == (cipher.SecKey{}), "locked_wallet_holds_no_secret_key")
		vpAssert(w.entries[i].Address == orig.entries[i].Address && w.entries[i].Public == orig.entries[i].Public, "public_data_kept")
	}
	vpAssert(w.Lock(pw) == wallet.ErrWalletEncrypted, "locking_twice_is_refused")

	// unlock
	pw2 := pw
	if vpBool("otherPassword") {
		pw2 = vpBytes("password2", vpLen("password2Len", 0, 2))
	}
	same := bytes.Equal(pw, pw2)
	u, err := w.Unlock(pw2)
	vpAssert(w.IsEncrypted() && w.Seed() == "", "unlock_leaves_the_locked_wallet_as_it_is")
	if !same {
		vpAssert(err != nil && u == nil, "wrong_password_is_refused")
		vpReach("wrong-password")
		return
	}
	vpAssert(err == nil && u != nil, "right_password_unlocks")
	uw := u.(*Wallet)
	vpAssert(!uw.IsEncrypted() && uw.Secrets() == "", "unlocked_wallet_is_marked_decrypted")
	vpAssert(uw.Seed() == seed && uw.LastSeed() == last, "seeds_restored")
	vpAssert(len(uw.entries) == n, "entries_kept")
	for i := 0; i < n; i++ {
		vpAssert(uw.entries[i].Secret == orig.entries[i].Secret, "secret_keys_restored")
		vpAssert(uw.entries[i].Address == orig.entries[i].Address && uw.entries[i].Public == orig.entries[i].Public, "public_data_kept")
	}
	vpReach("unlocked")
}
