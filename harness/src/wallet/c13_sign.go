package wallet

import (
	"github.com/skycoin/skycoin/src/cipher"
	"github.com/skycoin/skycoin/src/coin"
)

// C13 — wallet.SignTransaction signs exactly the requested (or all unsigned)
// inputs with the owners' keys and changes nothing else.

type vpSignWallet struct {
	Wallet
	typ     string
	enc     bool
	entries Entries
}

func (w *vpSignWallet) Type() string                            { return w.typ }
func (w *vpSignWallet) IsEncrypted() bool                       { return w.enc }
func (w *vpSignWallet) GetEntries(o ...Option) (Entries, error) { return w.entries, nil }

//vp:prop C13
//vp:bounds transaction with 2 (quick) / 2..3 (thorough) inputs and 1 output, each existing signature null or arbitrary non-null; sign-index lists of length 0..inputs with values 0..inputs (one out-of-range value, duplicates allowed); each spent output owned by wallet entry 0, entry 1 or a foreign address; wallet of 2 entries with free secret keys; wallet type in {deterministic, bip44, collection, xpub}, encrypted or not; inner hash correct or corrupted
//vp:assume wallet entries with different addresses hold different secret keys (C17); a produced signature is never null; SHA256 collision free; signing (cipher.SignHash) is an uninterpreted function of (message hash, secret key) (A-SIG: a signature made with the key of an address verifies for it)
//vp:rule github.com/skycoin/skycoin/src/cipher.SignHash uf:signhash:noerr
//vp:noreplay signatures and hashes are uninterpreted
func vpH_C13_SignTransaction() {
	nIn := 2
	if vpThorough() {
		nIn = vpLen("nIn", 2, 3)
	}
	// wallet: two entries with distinct concrete addresses and free secrets
	var a0, a1, foreign cipher.Address
	a0.Key[0], a1.Key[0], foreign.Key[0] = 1, 2, 3
	// the wallet kind only gates the call: all kinds are tried on the plain
	// request (mode 0), the request space on a deterministic unencrypted wallet (mode 1)
	mode := vpLen("mode", 0, 1)
	w := &vpSignWallet{typ: WalletTypeDeterministic}
	if mode == 0 {
		w.typ = [4]string{WalletTypeDeterministic, WalletTypeBip44, WalletTypeCollection, WalletTypeXPub}[vpLen("walletType", 0, 3)]
		w.enc = vpBool("encrypted")
	}
	w.entries = Entries{{Address: a0}, {Address: a1}}
	vpFill("secret0", &w.entries[0].Secret)
	vpFill("secret1", &w.entries[1].Secret)
	owners := [3]cipher.Address{a0, a1, foreign}
	// wallet invariant (C17): an entry's address is the address of its secret key,
	// so entries with different addresses hold different keys
	vpAssume(w.entries[0].Secret != w.entries[1].Secret)

	txn := &coin.Transaction{}
	txn.In = make([]cipher.SHA256, nIn)
	txn.Sigs = make([]cipher.Sig, nIn)
	txn.Out = make([]coin.TransactionOutput, 1)
	vpFill("out", &txn.Out[0])
	uxOuts := make([]coin.UxOut, nIn)
	ownerIdx := make([]int, nIn)
	wasNull := make([]bool, nIn)
	for i := 0; i < nIn; i++ {
		vpFill("in", &txn.In[i])
		if mode == 1 {
			ownerIdx[i] = vpLen("owner", 0, 2)
		}
		uxOuts[i].Body.Address = owners[ownerIdx[i]]
		if mode == 1 && vpBool("presigned") {
			vpFill("sig", &txn.Sigs[i])
			vpAssume(txn.Sigs[i] != (cipher.Sig{}))
		} else {
			wasNull[i] = true
		}
	}
	txn.InnerHash = txn.HashInner()
	innerOK := true
	if mode == 1 && vpBool("corruptInner") {
		txn.InnerHash[0] ^= 0xFF
		innerOK = false
	}
	nIdx := 0
	if mode == 1 {
		nIdx = vpLen("nIndexes", 0, nIn)
	}
	idx := make([]int, nIdx)
	for k := range idx {
		idx[k] = vpLen("index", 0, nIn)
	}
	// A-SIG: a produced signature is never the null signature
	for i := 0; i < nIn; i++ {
		if ownerIdx[i] < 2 {
			vpAssume(cipher.MustSignHash(cipher.AddSHA256(txn.InnerHash, txn.In[i]), w.entries[ownerIdx[i]].Secret) != (cipher.Sig{}))
		}
	}
	before := *txn
	beforeSigs := append([]cipher.Sig(nil), txn.Sigs...)

	out, err := SignTransaction(w, txn, idx, uxOuts)

	// the argument object is never modified
	vpAssert(txn.InnerHash == before.InnerHash && len(txn.Sigs) == nIn, "argument_header_unchanged")
	for i := 0; i < nIn; i++ {
		vpAssert(txn.Sigs[i] == beforeSigs[i], "argument_signatures_unchanged")
	}

	// requested set
	requested := make([]bool, nIn)
	badIdx := false
	if nIdx > 0 {
		for k := range idx {
			if idx[k] >= nIn || requested[idx[k]] {
				badIdx = true
			} else {
				requested[idx[k]] = true
			}
		}
	} else {
		copy(requested, wasNull)
	}
	missingKey, alreadySigned, anyNull := false, false, false
	for i := 0; i < nIn; i++ {
		if wasNull[i] {
			anyNull = true
		}
		if requested[i] && ownerIdx[i] == 2 {
			missingKey = true
		}
		if requested[i] && !wasNull[i] {
			alreadySigned = true
		}
	}
	mustFail := w.typ == WalletTypeXPub || w.enc || !innerOK || !anyNull || badIdx || missingKey || alreadySigned

	if err != nil {
		vpAssert(out == nil, "failure_returns_no_transaction")
		vpAssert(mustFail, "no_spurious_failure")
		vpReach("failed")
		return
	}
	vpReach("signed")
	vpAssert(!mustFail, "fails_for_watch_only_encrypted_bad_request_or_missing_key")
	vpAssert(out != txn && len(out.Sigs) == nIn && len(out.In) == nIn && len(out.Out) == 1, "result_is_a_copy_of_same_shape")
	vpAssert(out.InnerHash == before.InnerHash && out.Out[0] == before.Out[0], "inner_hash_and_outputs_unchanged")
	for i := 0; i < nIn; i++ {
		vpAssert(out.In[i] == before.In[i], "inputs_unchanged")
		if requested[i] {
			want := cipher.MustSignHash(cipher.AddSHA256(before.InnerHash, before.In[i]), w.entries[ownerIdx[i]].Secret)
			vpAssert(out.Sigs[i] == want, "requested_input_signed_with_owner_key")
		} else {
			vpAssert(out.Sigs[i] == beforeSigs[i], "other_signatures_untouched")
		}
	}
}
